"""C01 - ELF file, section and program headers are decoded exactly as encoded."""
from symx.api import H
from spec import enc
from spec import elf_layout as L
from spec import registry as REG
from harness.elfkit import Image, open_elf

PROPERTY = 'C01'
ASSUMPTIONS = [
    'images are generated from skeletons (table placement, entry-size slack, counts fixed per instance); every header field VALUE that the structure does not pin is symbolic',
    'in the table harnesses payload sections are not SHF_COMPRESSED and of a type without specialised object (those are h1_4 / C02), payload segments are not PT_DYNAMIC (C09)',
    'section name string table present and designated by e_shstrndx (or, with SHN_XINDEX, by section 0 sh_link)',
]
STUBS = ['SymStream (io.BytesIO)', 'SxPacker (struct.Struct)']
OUTSIDE = ['materialised tables with >= 0xff00 entries (the escape is checked on the counts)', 'images larger than ~2 KiB',
           'non-ASCII section names', 'names no vendored registry defines (C17 lists them)']

MACH = {'generic': 3, 'ARM': 40, 'AARCH64': 183, 'X86_64': 62, 'MIPS': 8, 'RISCV': 243, 'SPARC': 2, 'SPARCV9': 43, 'PPC64': 21}
MACH_PREFIX = {'ARM': ('SHT_ARM_', 'PT_ARM_'), 'AARCH64': ('SHT_AARCH64_', 'PT_AARCH64_'), 'X86_64': ('SHT_X86_64_', 'SHT_AMD64_'),
               'MIPS': ('SHT_MIPS_', 'PT_MIPS_'), 'RISCV': ('SHT_RISCV_', 'PT_RISCV_')}
ALL_PREFIXES = sorted({p for ps in MACH_PREFIX.values() for p in ps})


def _enum_ok(ctx, label, got, raw, machine=None):
    """reported value is a registry name of the raw code (of the right machine namespace) or the raw code itself.
    One obligation per field (the per-name break-down is C17's)."""
    conds = []
    for cond, obj in ctx.alternatives(got):
        if isinstance(obj, str):
            acc = REG.values(obj)
            if acc:
                conds.append(ctx.implies(cond, ctx.lor(*[raw == a for a in sorted(acc)])))
            if machine is not None:
                foreign = [p for p in ALL_PREFIXES if obj.startswith(p) and p not in MACH_PREFIX.get(machine, ())]
                conds.append(ctx.implies(cond, not foreign))
        else:
            conds.append(ctx.implies(cond, ctx.eq(obj, raw)))
            # a code is left raw only if the library has no name for it in this context: every name of its own vocabulary that a
            # registry confirms and that belongs to this field and machine must be reported by name
            named = _vocabulary(ctx, label, machine)
            if named:
                ctx.check('%s/named-code-not-left-raw' % label, ctx.implies(cond, ctx.land(*[raw != v for v in named])))
    ctx.check('%s/name-or-raw' % label, ctx.land(*conds))


FIELD_PREFIX = {'sh_type': 'SHT_', 'p_type': 'PT_', 'e_type': 'ET_', 'e_machine': 'EM_', 'e_version': 'EV_', 'EI_VERSION': 'EV_', 'EI_OSABI': 'ELFOSABI_'}
_MARKERS = ('LOOS', 'HIOS', 'LOPROC', 'HIPROC', 'LOUSER', 'HIUSER', 'LOSUNW', 'HISUNW', 'NUM')
_VOCAB = {}


def _vocabulary(ctx, label, machine):
    """codes the library's own enumeration tables name (with a registry-confirmed value) for this field in this machine context"""
    field = [f for f in FIELD_PREFIX if ('/' + f) in label or label.endswith(f)]
    if not field:
        return []
    pre = FIELD_PREFIX[field[0]]
    key = (pre, machine)
    if key not in _VOCAB:
        EN = ctx.lib('elf.enums')
        vals = set()
        for n in dir(EN):
            d = getattr(EN, n)
            if not (n.startswith('ENUM') and isinstance(d, dict)):
                continue
            for name, v in d.items():
                if not (isinstance(name, str) and name.startswith(pre) and isinstance(v, int)) or name.rsplit('_', 1)[-1] in _MARKERS:
                    continue
                if v not in REG.values(name):
                    continue
                own = [p for p in ALL_PREFIXES if name.startswith(p)]
                if own and not (machine is not None and any(p in MACH_PREFIX.get(machine, ()) for p in own)):
                    continue
                vals.add(v)
        _VOCAB[key] = sorted(vals)
    return _VOCAB[key]


# ------------------------------------------------------------------ H1.1 file header layout
def h_ehdr(ctx):
    cfg = ctx.cfg
    cls, little = cfg['elfclass'], cfg['little']
    EF = ctx.lib('elf.elffile')
    n = 16 + L.sizeof('EHDR', cls)
    cells = ctx.bytes('h', n)
    ident = L.ident(cls, little)
    for i in range(6):
        ctx.assume(cells[i] == ident[i])
    want = L.decode('EHDR', cls, little, cells[16:])
    # enumerated fields not listed in cfg['free'] are pinned to a common value (quick tier: one enumeration at a time keeps the
    # number of paths a sum instead of a product; thorough: all free)
    free = cfg.get('free')
    if free is not None:
        pins = {'e_type': (want['e_type'], 2), 'e_machine': (want['e_machine'], 62), 'e_version': (want['e_version'], 1),
                'EI_VERSION': (cells[6], 1), 'EI_OSABI': (cells[7], 0)}
        for k, (term, v) in pins.items():
            if k not in free:
                ctx.assume(term == v)
    # the section-name string table header lies beyond the image (-> no string table), no extended index
    shsz = L.sizeof('SHDR', cls)
    ctx.assume(want['e_shstrndx'] != 0xffff)
    ctx.assume(want['e_shoff'] + want['e_shstrndx'] * want['e_shentsize'] > n)
    ctx.assume(ctx.lor(want['e_shoff'] == 0, want['e_shentsize'] >= shsz))
    elf = EF.ELFFile(ctx.stream(cells))
    ctx.outcome('ok')
    ctx.check_eq('ehdr/elfclass', elf.elfclass, cls)
    ctx.check_eq('ehdr/little_endian', elf.little_endian, little)
    ctx.check_eq('ehdr/e_ident_raw', elf.e_ident_raw, ctx.mkbytes(cells[:16]))
    h = elf.header
    for f in ('e_entry', 'e_phoff', 'e_shoff', 'e_flags', 'e_ehsize', 'e_phentsize', 'e_phnum', 'e_shentsize', 'e_shnum', 'e_shstrndx'):
        ctx.check_eq('ehdr/%s' % f, h[f], want[f])
    _enum_ok(ctx, 'ehdr/e_type', h['e_type'], want['e_type'])
    _enum_ok(ctx, 'ehdr/e_machine', h['e_machine'], want['e_machine'])
    _enum_ok(ctx, 'ehdr/e_version', h['e_version'], want['e_version'])
    idn = h['e_ident']
    ctx.check_eq('ehdr/EI_MAG', list(idn['EI_MAG']), ident[:4])
    _enum_ok(ctx, 'ehdr/EI_VERSION', idn['EI_VERSION'], cells[6])
    _enum_ok(ctx, 'ehdr/EI_OSABI', idn['EI_OSABI'], cells[7])
    ctx.check_eq('ehdr/EI_ABIVERSION', idn['EI_ABIVERSION'], cells[8])
    ctx.check('ehdr/EI_CLASS', idn['EI_CLASS'] == ('ELFCLASS32' if cls == 32 else 'ELFCLASS64'))
    ctx.check('ehdr/EI_DATA', idn['EI_DATA'] == ('ELFDATA2LSB' if little else 'ELFDATA2MSB'))
    # the counts follow the header unless the gABI escape value is used (PN_XNUM = 0xffff for segments; e_shnum = 0 for sections)
    if ctx.fork(want['e_phnum'] != 0xffff):
        ctx.check_eq('ehdr/num_segments', elf.num_segments(), want['e_phnum'])
    if ctx.fork(want['e_shoff'] == 0):
        ctx.check_eq('ehdr/num_sections/no-table', elf.num_sections(), 0)
    elif ctx.fork(want['e_shnum'] != 0):
        ctx.check_eq('ehdr/num_sections', elf.num_sections(), want['e_shnum'])


# ------------------------------------------------------------------ H1.2 section / program header layout per machine
def _structs(ctx, cls, little, machine):
    S = ctx.lib('elf.structs')
    EN = ctx.lib('elf.enums')
    st = S.ELFStructs(little_endian=little, elfclass=cls)
    st.create_basic_structs()
    mname = {v: k for k, v in EN.ENUM_E_MACHINE.items()}.get(MACH[machine])
    st.create_advanced_structs('ET_EXEC', mname, 'ELFOSABI_SYSV')
    return st


def h_shdr_phdr(ctx):
    cfg = ctx.cfg
    cls, little, machine, which = cfg['elfclass'], cfg['little'], cfg['machine'], cfg['which']
    U = ctx.lib('common.utils')
    st = _structs(ctx, cls, little, machine)
    if cfg.get('copied'):
        # an ELFFile that went through copy.deepcopy / pickle rebuilds its structs from their state tuple: same decoding
        import copy
        st = copy.deepcopy(st)
    name = 'SHDR' if which == 'shdr' else 'PHDR'
    n = L.sizeof(name, cls)
    cells = ctx.bytes('b', n)
    trail = ctx.bytes('t', 2)
    stream = ctx.stream(cells + trail)
    got = U.struct_parse(st.Elf_Shdr if which == 'shdr' else st.Elf_Phdr, stream)
    want = L.decode(name, cls, little, cells)
    ctx.outcome('ok')
    ctx.check_eq('%s/consumed' % which, stream.tell(), n)
    tfield = 'sh_type' if which == 'shdr' else 'p_type'
    for f in want:
        if f == tfield:
            _enum_ok(ctx, '%s/%s/%s' % (which, f, machine), got[f], want[f], machine=machine)
        else:
            ctx.check_eq('%s/%s' % (which, f), got[f], want[f])
    ctx.check_eq('%s/sizeof' % which, (st.Elf_Shdr if which == 'shdr' else st.Elf_Phdr).sizeof(), n)


# ------------------------------------------------------------------ H1.3 table addressing, extended numbering
PLAIN_SHT = [1, 8, 14, 15, 16, 17]      # PROGBITS NOBITS INIT_ARRAY FINI_ARRAY PREINIT_ARRAY GROUP
SPECIAL_SHT = [0, 2, 3, 4, 5, 6, 7, 9, 11, 18, 19, 0x6ffffff6, 0x6ffffffd, 0x6ffffffe, 0x6fffffff, 0x6ffffffc, 0x6ffffff3, 0x70000003]


def _plain_type(ctx, nm):
    t = ctx.uint(nm, 32)
    ctx.assume(ctx.land(*[t != s for s in SPECIAL_SHT]))
    return t


def h_tables(ctx):
    cfg = ctx.cfg
    cls, little, variant = cfg['elfclass'], cfg['little'], cfg.get('variant', 'plain')
    EF = ctx.lib('elf.elffile')
    A = 32 if cls == 32 else 64
    img = Image(cls, little, machine=MACH[cfg.get('machine', 'X86_64')])
    null_fields = {}
    if variant == 'xnum_sh':
        null_fields['sh_size'] = ctx.uint('xnum.sh_size', A)
    if variant == 'xnum_ph':
        null_fields['sh_info'] = ctx.uint('xnum.sh_info', 32)
    img.section('', sh_type=0, **null_fields)
    secs = []
    for i in range(cfg['nsec']):
        f = dict(sh_type=_plain_type(ctx, 's%d.type' % i), sh_flags=ctx.uint('s%d.flags' % i, A) & ~0x800, sh_addr=ctx.uint('s%d.addr' % i, A),
                 sh_offset=ctx.uint('s%d.offset' % i, A), sh_size=ctx.uint('s%d.size' % i, A), sh_link=ctx.uint('s%d.link' % i, 32),
                 sh_info=ctx.uint('s%d.info' % i, 32), sh_addralign=ctx.uint('s%d.align' % i, A), sh_entsize=ctx.uint('s%d.entsize' % i, A))
        secs.append(f)
        img.section('.s%d' % i if variant != 'noshstr' else '', **f)
    segs = []
    for i in range(cfg['nseg']):
        t = ctx.uint('p%d.type' % i, 32)
        ctx.assume(t != 2)
        f = dict(p_type=t, p_flags=ctx.uint('p%d.flags' % i, 32), p_offset=ctx.uint('p%d.offset' % i, A), p_vaddr=ctx.uint('p%d.vaddr' % i, A),
                 p_paddr=ctx.uint('p%d.paddr' % i, A), p_filesz=ctx.uint('p%d.filesz' % i, A), p_memsz=ctx.uint('p%d.memsz' % i, A),
                 p_align=ctx.uint('p%d.align' % i, A))
        segs.append(f)
        img.segment(**f)
    # 'noshstr': sections without a name table (e_shstrndx = SHN_UNDEF, "the file has no section name string table": objcopy
    # --strip-section-names, core files with an extended segment count); everything but the names is still reported
    stridx = img.add_shstrtab(index_field=(variant != 'xindex')) if variant != 'noshstr' else None
    named = stridx is not None
    eh = {}
    if variant == 'xindex':
        img.sections[0]['sh_link'] = stridx
        eh['e_shstrndx'] = 0xffff
    if variant == 'xnum_sh':
        eh['e_shnum'] = 0
    if variant == 'xnum_ph':
        eh['e_phnum'] = 0xffff
    shsz, phsz = L.sizeof('SHDR', cls), L.sizeof('PHDR', cls)
    data = img.build(shentsize=shsz + cfg.get('shslack', 0), phentsize=(phsz + cfg.get('phslack', 0)) if cfg['nseg'] else None,
                     gap=cfg.get('gap', 0), tail=cfg.get('tail', 0), **eh)
    elf = open_elf(ctx, data)
    ctx.outcome('ok')
    nsec_total = cfg['nsec'] + (2 if named else 1)
    if variant == 'xnum_sh':
        ctx.check_eq('tables/num_sections/extended', elf.num_sections(), null_fields['sh_size'])
    else:
        ctx.check_eq('tables/num_sections', elf.num_sections(), nsec_total)
        got = ctx.walk(lambda: elf.iter_sections())
        ctx.check_eq('tables/iter_sections/count', len(got), nsec_total)
        for i, f in enumerate(secs):
            s = elf.get_section(i + 1)
            for k, v in f.items():
                if k == 'sh_type':
                    _enum_ok(ctx, 'tables/section/sh_type', s[k], v, machine=cfg.get('machine', 'X86_64'))
                else:
                    ctx.check_eq('tables/section/%s' % k, s[k], v)
            if named:
                ctx.check_eq('tables/section/name', s.name, '.s%d' % i)
            ctx.check_eq('tables/section/class', type(s).__name__, 'Section')
            if len(got) == nsec_total:
                ctx.check_eq('tables/iter-order', [got[i + 1].name if named else '', got[i + 1]['sh_offset']], ['.s%d' % i if named else '', f['sh_offset']])
        if named:
            ctx.check_eq('tables/shstrtab/name', elf.get_section(stridx).name, '.shstrtab')
        ctx.check_eq('tables/null/class', type(elf.get_section(0)).__name__, 'NullSection')
        ctx.check_eq('tables/get_shstrndx', elf.get_shstrndx(), stridx if named else 0)
    if variant == 'xnum_ph':
        ctx.check_eq('tables/num_segments/extended', elf.num_segments(), null_fields['sh_info'])
    else:
        ctx.check_eq('tables/num_segments', elf.num_segments(), cfg['nseg'])
        gsegs = ctx.walk(lambda: elf.iter_segments())
        ctx.check_eq('tables/iter_segments/count', len(gsegs), cfg['nseg'])
        for i, f in enumerate(segs):
            s = elf.get_segment(i)
            for k, v in f.items():
                if k == 'p_type':
                    _enum_ok(ctx, 'tables/segment/p_type', s[k], v, machine=cfg.get('machine', 'X86_64'))
                else:
                    ctx.check_eq('tables/segment/%s' % k, s[k], v)
            if len(gsegs) == cfg['nseg']:
                ctx.check_eq('tables/segment/iter-order', gsegs[i]['p_offset'], f['p_offset'])


# ------------------------------------------------------------------ H1.6 more sections than a 16-bit index can number
def h_many_sections(ctx):
    """a file with more than 0xff00 sections (extended numbering for both the count and the name-table index): the entries 0xff00..0xffff
    of the section header table are ordinary sections - only index FIELDS reserve those values (ground instance, a 2.6 MB image)"""
    cfg = ctx.cfg
    cls, little, n = cfg['elfclass'], cfg['little'], cfg['n']
    EF = ctx.lib('elf.elffile')
    img = Image(cls, little, machine=MACH['X86_64'])
    img.section('', sh_type=0)
    marks = {0xfeff: '.below', 0xff00: '.lo', 0xff01: '.lo1', 0xfff1: '.abs', 0xffff: '.hi', 0x10000: '.over', n - 1: '.last'}
    # section 0xffff is a string table of its own; a symbol table, a version definition section, a version requirement section
    # and a dynamic section name it in sh_link - the value the FILE HEADER uses as the escape for its name-table index
    histr = [0] + [ord(c) for c in 'sym_hi'] + [0] + [ord(c) for c in 'ver_hi'] + [0]
    hioff = img.blob(histr)
    symoff = img.blob(L.encode('SYM', cls, little, {}) + L.encode('SYM', cls, little, dict(st_name=1, st_info=0x12, st_shndx=1)), align=8)
    vdoff = img.blob(L.encode('VERDEF', cls, little, dict(vd_version=1, vd_ndx=2, vd_cnt=1, vd_aux=20, vd_next=0)) + L.encode('VERDAUX', cls, little, dict(vda_name=8)), align=4)
    vnoff = img.blob(L.encode('VERNEED', cls, little, dict(vn_version=1, vn_cnt=1, vn_file=1, vn_aux=16, vn_next=0)) +
                     L.encode('VERNAUX', cls, little, dict(vna_other=3, vna_name=8)), align=4)
    dynoff = img.blob(L.encode('DYN', cls, little, dict(d_tag=1, d_val=8)) + L.encode('DYN', cls, little, dict(d_tag=0, d_val=0)), align=8)
    symsz, dynsz = L.sizeof('SYM', cls), L.sizeof('DYN', cls)
    special = {
        0xffff: dict(sh_type=3, sh_offset=hioff, sh_size=len(histr)),
        3: dict(sh_type=2, sh_offset=symoff, sh_size=2 * symsz, sh_entsize=symsz, sh_link=0xffff, sh_info=1),
        4: dict(sh_type=0x6ffffffd, sh_offset=vdoff, sh_size=28, sh_link=0xffff, sh_info=1),
        5: dict(sh_type=0x6ffffffe, sh_offset=vnoff, sh_size=32, sh_link=0xffff, sh_info=1),
        6: dict(sh_type=6, sh_offset=dynoff, sh_size=2 * dynsz, sh_entsize=dynsz, sh_link=0xffff),
    }
    for i in range(1, n):
        if i in special:
            img.section(marks.get(i, ''), **special[i])
        else:
            img.section(marks.get(i, ''), sh_type=8, sh_offset=i, sh_size=i & 0xff)
    stridx = img.add_shstrtab(index_field=False)
    img.sections[0]['sh_link'] = stridx
    img.sections[0]['sh_size'] = n + 1
    data = img.build(e_shstrndx=0xffff, e_shnum=0)
    elf = open_elf(ctx, data)
    ctx.outcome('ok')
    if cfg.get('links_first'):
        _many_links(ctx, elf)
    ctx.check_eq('many/num_sections', elf.num_sections(), n + 1)
    got = [(s.name, s['sh_offset']) for s in elf.iter_sections()]
    ctx.check_eq('many/iter_sections/count', len(got), n + 1)
    ctx.check_eq('many/iter_sections/in-file-order', [o for i, (_, o) in enumerate(got[1:n], 1) if i not in special], [i for i in range(1, n) if i not in special])
    for i, nm in sorted(marks.items()):
        if i < len(got):
            ctx.check_eq('many/enumerated-name/%#x' % i, got[i][0], nm)
        ctx.check_eq('many/get_section/%#x' % i, elf.get_section(i).name, nm)
        ctx.check_eq('many/get_section_index/%s' % nm, elf.get_section_index(nm), i)
        s = elf.get_section_by_name(nm)
        ctx.check('many/get_section_by_name/%s' % nm, s is not None and s['sh_offset'] == (special[i]['sh_offset'] if i in special else i))
    _many_links(ctx, elf)


def _many_links(ctx, elf):
    """sh_link = 0xffff designates section 0xffff (sh_link is a full word: no escape value), whatever the file header's name-table field holds"""
    symtab = elf.get_section(3)
    ctx.check_eq('many/sh_link=0xffff/symbol-table/type', type(symtab).__name__, 'SymbolTableSection')
    ctx.check_eq('many/sh_link=0xffff/symbol-table/name-of-symbol', symtab.get_symbol(1).name, 'sym_hi')
    ctx.check('many/sh_link=0xffff/symbol-table/by-name', bool(symtab.get_symbol_by_name('sym_hi')))
    vd = elf.get_section(4)
    ctx.check_eq('many/sh_link=0xffff/verdef/type', type(vd).__name__, 'GNUVerDefSection')
    ctx.check_eq('many/sh_link=0xffff/verdef/names', [[a.name for a in auxs] for _, auxs in ((v, list(it)) for v, it in vd.iter_versions())], [['ver_hi']])
    vn = elf.get_section(5)
    ctx.check_eq('many/sh_link=0xffff/verneed/type', type(vn).__name__, 'GNUVerNeedSection')
    ctx.check_eq('many/sh_link=0xffff/verneed/names', [(v.name, [a.name for a in it]) for v, it in vn.iter_versions()], [('sym_hi', ['ver_hi'])])
    dyn = elf.get_section(6)
    ctx.check_eq('many/sh_link=0xffff/dynamic/type', type(dyn).__name__, 'DynamicSection')
    ctx.check_eq('many/sh_link=0xffff/dynamic/needed', [t.needed for t in dyn.iter_tags() if t.entry.d_tag == 'DT_NEEDED'], ['ver_hi'])


# ------------------------------------------------------------------ H1.4 type -> object kind
KINDS = {
    0: 'NullSection', 3: 'StringTableSection', 2: 'SymbolTableSection', 11: 'SymbolTableSection', 0x6ffffff3: 'SymbolTableSection',
    18: 'SymbolTableIndexSection', 0x6ffffffc: 'SUNWSyminfoTableSection', 0x6ffffffe: 'GNUVerNeedSection', 0x6ffffffd: 'GNUVerDefSection',
    0x6fffffff: 'GNUVerSymSection', 4: 'RelocationSection', 9: 'RelocationSection', 6: 'DynamicSection', 7: 'NoteSection',
    5: 'ELFHashSection', 0x6ffffff6: 'GNUHashSection', 19: 'RelrRelocationSection',
}
LINK_SYMTAB = {18, 0x6ffffffc, 0x6fffffff, 5, 0x6ffffff6}
LINK_STRTAB = {2, 11, 0x6ffffff3, 0x6ffffffe, 0x6ffffffd, 6}


def _kind_image(ctx, cls, little, machine, sh_type, name='.x', link=None, content=None, osabi=0):
    img = Image(cls, little, machine=MACH[machine], osabi=osabi)
    img.section('', sh_type=0)
    stroff = img.blob([0, 0x61, 0])
    img.section('.strtab', sh_type=3, sh_offset=stroff, sh_size=3)                                   # 1
    symoff = img.blob([0] * L.sizeof('SYM', cls))
    img.section('.symtab', sh_type=2, sh_offset=symoff, sh_size=L.sizeof('SYM', cls), sh_entsize=L.sizeof('SYM', cls), sh_link=1)   # 2
    data = content if content is not None else [0] * 32
    off = img.blob(data, align=8)
    entsize = {4: L.sizeof('RELA', cls), 9: L.sizeof('REL', cls), 19: cls // 8}.get(sh_type if isinstance(sh_type, int) else -1, 8)
    img.section(name, sh_type=sh_type, sh_offset=off, sh_size=len(data), sh_link=link if link is not None else 0, sh_entsize=entsize)   # 3
    img.add_shstrtab()
    return img.build()


def h_kinds(ctx):
    cfg = ctx.cfg
    cls, little, machine = cfg['elfclass'], cfg['little'], cfg['machine']
    EF = ctx.lib('elf.elffile')
    t = cfg['sh_type']
    name = cfg.get('name', '.x')
    if t == 'other':
        code = ctx.uint('sh_type', 32)
        specials = set(KINDS)
        specials.add(0x70000003)
        ctx.assume(ctx.land(*[code != s for s in sorted(specials)]))
        if name == '.stab':
            ctx.assume(code != 1)
        want = 'Section'
        link = 0
    else:
        code = t
        link = 2 if t in LINK_SYMTAB else (1 if t in LINK_STRTAB else 0)
        if t == 0x70000003:
            want = {'ARM': 'ARMAttributesSection', 'RISCV': 'RISCVAttributesSection'}.get(machine, 'Section')
        elif t == 1:
            want = 'StabSection' if name == '.stab' else 'Section'
        else:
            want = KINDS.get(t, 'Section')
    content = [0x41] + [0] * 31 if t == 0x70000003 else None
    if t in (5, 0x6ffffff6):
        # minimal hash tables: nbucket=1,nchain=1 / nbuckets=1,symoffset=1,bloom_size=1,shift=0
        w = lambda v: enc.enc_int(v, 4, little)
        content = (w(1) + w(1) + w(0) + w(0)) if t == 5 else (w(1) + w(1) + w(1) + w(0) + [0] * (cls // 8) + w(0) + [0] * 8)
    data = _kind_image(ctx, cls, little, machine, code, name=name, link=link, content=content, osabi=cfg.get('osabi', 0))
    elf = open_elf(ctx, data)
    sec = elf.get_section(3)
    ctx.outcome('ok')
    ctx.check_eq('kind/%s/%s/osabi=%d' % (t if t == 'other' else hex(t), machine, cfg.get('osabi', 0)), type(sec).__name__, want)
    ctx.check_eq('kind/name', sec.name, name)
    ctx.check_eq('kind/via-iter', type(ctx.walk(lambda: elf.iter_sections())[3]).__name__, want)


def h_seg_kinds(ctx):
    cfg = ctx.cfg
    cls, little = cfg['elfclass'], cfg['little']
    EF = ctx.lib('elf.elffile')
    img = Image(cls, little)
    t = ctx.uint('p_type', 32)
    ctx.assume(t != 2)
    off = img.blob([0x2f, 0x6c, 0])
    img.segment(p_type=t, p_offset=off, p_filesz=3, p_memsz=3)
    elf = open_elf(ctx, img.build())
    seg = elf.get_segment(0)
    ctx.outcome('ok')
    want = ctx.ite(t == 3, 'InterpSegment', ctx.ite(t == 4, 'NoteSegment', 'Segment'))
    ctx.check_eq('segkind', type(seg).__name__, want)


# ------------------------------------------------------------------ H1.5 lookups agree with enumeration
NAMETAB = [0] + [ord(c) for c in 'a\0bc\0a\0']        # offsets: 0:'' 1:'a' 3:'bc' 4:'c' 6:'a' 7:''


def h_lookup(ctx):
    cfg = ctx.cfg
    cls, little = cfg['elfclass'], cfg['little']
    EF = ctx.lib('elf.elffile')
    img = Image(cls, little)
    img.section('', sh_type=0, sh_name=0)
    noff = img.blob(NAMETAB)
    nsym = cfg['nsym']
    name_offs = []
    for i in range(cfg['nsec']):
        o = ctx.int_range('name%d' % i, 0, len(NAMETAB) - 1) if i < nsym else [1, 3, 6][i % 3]
        name_offs.append(o)
        img.section('', sh_type=1, sh_name=o, sh_offset=0x40 + i)
    stridx = img.section('', sh_type=3, sh_name=4, sh_offset=noff, sh_size=len(NAMETAB))
    data = img.build(e_shstrndx=stridx)
    elf = open_elf(ctx, data)
    if cfg.get('warm'):
        elf.has_section('zzz')
    secs = ctx.walk(lambda: elf.iter_sections())
    names = [s.name for s in secs]
    ctx.outcome('ok')

    def ref_name(o):
        e = o
        while NAMETAB[e] != 0:
            e += 1
        return ''.join(chr(c) for c in NAMETAB[o:e])
    want_names = [''] + [ref_name(ctx.concretize(o)) for o in name_offs] + ['c']
    ctx.check_eq('lookup/names', names, want_names)
    for q in ('', 'a', 'bc', 'c', 'zz', 'b', 'abc', 'ab'):
        present = q in want_names
        # the very first query on a freshly opened file (nothing cached yet): a string that merely occurs in the name table (an
        # unreferenced string, the tail of another name) is not a section name
        ctx.check_eq('lookup/has_section/first-query', EF.ELFFile(ctx.stream(data)).has_section(q), present)
        ctx.check_eq('lookup/has_section', elf.has_section(q), present)
        idx = elf.get_section_index(q)
        sec = elf.get_section_by_name(q)
        if not present:
            ctx.check('lookup/absent', idx is None and sec is None)
        else:
            ctx.check('lookup/index-names-it', idx is not None and want_names[idx] == q)
            ctx.check('lookup/by-name', sec is not None and sec.name == q)
            if idx is not None and sec is not None:
                ctx.check_eq('lookup/same-section', sec['sh_offset'], elf.get_section(idx)['sh_offset'])


def h_long_names(ctx):
    """section names of 63, 64, 65, 128 and 200 characters (the name reader works in chunks): names and lookups by name (ground)"""
    cfg = ctx.cfg
    EF = ctx.lib('elf.elffile')
    img = Image(cfg['elfclass'], cfg['little'])
    img.section('', sh_type=0)
    names = ['.text._ZN' + 'x' * (n - 9) for n in cfg['lengths']]
    for i, nm in enumerate(names):
        img.section(nm, sh_type=1, sh_offset=0x40 + i)
    img.add_shstrtab()
    elf = open_elf(ctx, img.build())
    ctx.outcome('ok')
    ctx.check_eq('long-names/names', [s.name for s in ctx.walk(lambda: elf.iter_sections())], [''] + names + ['.shstrtab'])
    for i, nm in enumerate(names):
        ctx.check_eq('long-names/index', elf.get_section_index(nm), i + 1)
        sec = elf.get_section_by_name(nm)
        ctx.check('long-names/by-name', sec is not None and sec['sh_offset'] == 0x40 + i)
        ctx.check('long-names/has_section', elf.has_section(nm) and not elf.has_section(nm + 'y'))


# ------------------------------------------------------------------ instances
ENVS = [(32, True), (32, False), (64, True), (64, False)]


def _tables_instances(tier):
    out = []
    for cls, little in ENVS:
        out.append(dict(elfclass=cls, little=little, nsec=2, nseg=2))
        out.append(dict(elfclass=cls, little=little, nsec=2, nseg=2, shslack=8, phslack=24, gap=3, tail=5))      # entries larger than the structures: the stride is e_*entsize
        out.append(dict(elfclass=cls, little=little, nsec=0, nseg=0))
        out.append(dict(elfclass=cls, little=little, nsec=1, nseg=0, variant='xindex', shslack=16))
        out.append(dict(elfclass=cls, little=little, nsec=1, nseg=1, variant='xnum_sh'))
        out.append(dict(elfclass=cls, little=little, nsec=1, nseg=1, variant='xnum_ph'))
        out.append(dict(elfclass=cls, little=little, nsec=2, nseg=1, variant='noshstr'))
        if tier == 'thorough':
            out.append(dict(elfclass=cls, little=little, nsec=3, nseg=3, shslack=24, phslack=8, gap=7))
            for m in ('ARM', 'MIPS', 'RISCV', 'AARCH64', 'generic'):
                out.append(dict(elfclass=cls, little=little, nsec=1, nseg=1, machine=m))
    return out


def _kinds_instances(tier):
    out = []
    envs = [(64, True), (32, False)] if tier == 'quick' else ENVS
    for cls, little in envs:
        for t in sorted(KINDS) + [1, 8]:
            out.append(dict(elfclass=cls, little=little, machine='X86_64', sh_type=t))
        out.append(dict(elfclass=cls, little=little, machine='X86_64', sh_type=1, name='.stab'))
        for m in ('ARM', 'RISCV', 'X86_64', 'MIPS'):
            out.append(dict(elfclass=cls, little=little, machine=m, sh_type=0x70000003))
            out.append(dict(elfclass=cls, little=little, machine=m, sh_type='other'))
        out.append(dict(elfclass=cls, little=little, machine='X86_64', sh_type='other', name='.stab'))
        # the kind follows the type code in every processor and OS context (Solaris objects, SPARC, ... carry the same version, symbol and hash sections)
        for t in sorted(KINDS):
            for m, o in (('generic', 6), ('SPARC' if cls == 32 else 'SPARCV9', 6), ('MIPS', 0), ('ARM' if cls == 32 else 'AARCH64', 3), ('PPC64' if cls == 64 else 'RISCV', 9)):
                out.append(dict(elfclass=cls, little=little, machine=m, sh_type=t, osabi=o))
    return out


TIER_PARAMS = {'thorough': {'deadline_s': 5400}}

HARNESSES = [
    H('h1_1_ehdr', h_ehdr, lambda tier: [dict(elfclass=c, little=l, free=f) for c, l in ENVS
                                         for f in ((['e_type'], ['e_machine'], ['e_version', 'EI_VERSION'], ['EI_OSABI']) if tier == 'quick' else (None,))], expect=('ok',),
      desc='ELFFile() on a file header whose bytes (except magic/class/data) are all symbolic: every header field equals the gABI layout decode; '
           'enumerated fields report a registry name of the code or the raw code',
      bounds={'all': 'all values of every Elf32/Elf64_Ehdr field; the name-table header lies beyond the image'}),
    H('h1_2_shdr_phdr', h_shdr_phdr,
      lambda tier: [dict(elfclass=c, little=l, machine=m, which=w) for c, l in ENVS for m in (MACH if tier == 'thorough' else ('generic', 'ARM', 'X86_64', 'MIPS'))
                    for w in ('shdr', 'phdr')] +
                   [dict(elfclass=c, little=l, machine=m, which=w, copied=True) for c, l in ENVS[1:3] for m in ('ARM', 'MIPS', 'RISCV', 'AARCH64', 'X86_64') for w in ('shdr', 'phdr')],
      expect=('ok',),
      desc='Elf_Shdr / Elf_Phdr parse of fully symbolic entries per machine: layout, consumption, sh_type/p_type names belong to the registry and, '
           'for processor-specific codes, to that machine namespace; all other codes raw',
      bounds={'all': 'all 2^32 type codes per table'}),
    H('h1_5_long_names', h_long_names, lambda tier: [dict(elfclass=c, little=l, lengths=ln) for c, l in ENVS[1:3] for ln in ([64], [63, 64, 65], [128, 200, 64], [192])], expect=('ok',), decoy=-1,
      desc='section names whose length is around and at multiples of 64 characters: enumeration and lookups by name (ground)'),
    H('h1_6_many_sections', h_many_sections, lambda tier: [dict(elfclass=32, little=True, n=0x10003), dict(elfclass=64, little=False, n=0x10001, links_first=True)], expect=('ok',), decoy=-1,
      desc='65540 sections (e_shnum = 0, e_shstrndx = SHN_XINDEX): every entry of the table is enumerated in file order, also those whose index lies in the '
           'reserved range 0xff00..0xffff or beyond 0xffff; lookups by index and by name agree with the enumeration (ground instance)'),
    H('h1_3_tables', h_tables, _tables_instances, expect=('ok',),
      desc='real constructor on generated images: section/program header tables at varied offsets with entry-size slack, 0-3 entries with all field values symbolic; '
           'counts, order, every field, names; extended numbering (e_shnum=0 -> sh_size of section 0, e_phnum=0xffff -> sh_info, e_shstrndx=0xffff -> sh_link) with symbolic counts'),
    H('h1_4_kinds', h_kinds, _kinds_instances, expect=('ok',),
      desc='sh_type -> specialised object kind for every specialised type, and for a SYMBOLIC type code outside that set (must be plain Section); .stab; machine dependent attributes sections'),
    H('h1_4_seg_kinds', h_seg_kinds, lambda tier: [dict(elfclass=c, little=l) for c, l in ENVS], expect=('ok',),
      desc='p_type (symbolic, all codes but PT_DYNAMIC) -> InterpSegment / NoteSegment / Segment'),
    H('h1_5_lookup', h_lookup,
      lambda tier: [dict(elfclass=c, little=l, nsec=3, nsym=2 if tier == 'quick' else 3, warm=w) for c, l in ((64, True), (32, False)) for w in (False, True)], expect=('ok',),
      desc='sections whose sh_name offsets are symbolic over a small name table (duplicates and suffix strings arise): has_section / get_section_index / '
           'get_section_by_name agree with the enumeration for present and absent names'),
]
