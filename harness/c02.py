"""C02 - section and segment contents, string tables and address mapping are exact."""
from symx.api import H
from spec import enc
from harness.elfkit import stream_length, elf_object, phdr, open_elf
from spec import elf_layout as L

PROPERTY = 'C02'
ASSUMPTIONS = [
    'zlib is environment: modelled by contract (inflate of the registered payload = its plain bytes; decompress(d, max_length) returns at most max_length bytes, 0 = unlimited; input not consumed is returned in unconsumed_tail - never empty while output is pending, like the trailer of a real zlib stream; unregistered symbolic bytes are garbage -> zlib.error)',
    'section extents lie inside the image (well-formed); section_in_segment: the section does not wrap the 64-bit space (sh_offset+sh_size, sh_addr+sh_size < 2^64)',
    'string-table content is ASCII (the CPython UTF-8 codec is not modelled)',
]
STUBS = ['SymStream (io.BytesIO)', 'SxPacker (struct.Struct)', 'sx_zlib (contract model of zlib.decompressobj)']
OUTSIDE = ['real deflate streams', 'UTF-8 decoding of non-ASCII names', 'the ELF_TBSS_SPECIAL and zero-size-in-PT_DYNAMIC/PT_NOTE clauses of the binutils macro (not in the statement)',
           'PT_GNU_SFRAME / PT_GNU_MBIND segment types (newer than the rule the library documents)']

ENVS = [(32, True), (32, False), (64, True), (64, False)]


def _Elf(ctx, stream, cls, little, machine='EM_X86_64'):
    return elf_object(ctx, stream, cls, little, machine, 'ET_EXEC')


def _shdr(**kw):
    h = dict(sh_name=0, sh_type='SHT_PROGBITS', sh_flags=0, sh_addr=0, sh_offset=0, sh_size=0, sh_link=0, sh_info=0, sh_addralign=1, sh_entsize=0)
    h.update(kw)
    return h


# ------------------------------------------------------------------ H2.1 raw / NOBITS
def h_data(ctx):
    cfg = ctx.cfg
    n = cfg['n']
    SEC = ctx.lib('elf.sections')
    cells = ctx.bytes('f', n)
    nobits = cfg['nobits']
    size = ctx.int_range('sh_size', 0, cfg['maxsize'])
    if nobits:
        # a no-bits section occupies no file space: its offset is only conceptual and may lie anywhere, beyond the end of the file too
        off = ctx.uint('sh_offset', 32)
    else:
        off = ctx.int_range('sh_offset', 0, n)
        ctx.assume(off + size <= n)
    elf = _Elf(ctx, ctx.stream(cells), cfg['elfclass'], True)
    align = ctx.uint('sh_addralign', 16)
    sec = SEC.Section(_shdr(sh_type='SHT_NOBITS' if nobits else 'SHT_PROGBITS', sh_offset=off, sh_size=size, sh_addralign=align), '.x', elf)
    elf.stream.seek(3 % (n + 1))
    d = sec.data()
    ctx.outcome('ok')
    k = ctx.concretize(size)
    ctx.check_eq('data/len', len(d), k)
    if nobits:
        ctx.check_eq('data/nobits-zero', d, bytes(k))
        ctx.check_eq('data/nobits-no-read', elf.stream.tell(), 3 % (n + 1))
    else:
        o = ctx.concretize(off)
        ctx.check_eq('data/bytes', d, ctx.mkbytes(cells[o:o + k]))
    ctx.check_eq('data/data_size', sec.data_size, size)
    ctx.check_eq('data/data_alignment', sec.data_alignment, align)
    ctx.check('data/not-compressed', not sec.compressed)


# ------------------------------------------------------------------ H2.2 compressed
def h_compressed(ctx):
    cfg = ctx.cfg
    cls, little = cfg['elfclass'], cfg['little']
    SEC = ctx.lib('elf.sections')
    EXC = ctx.lib('common.exceptions')
    csz = L.sizeof('CHDR', cls)
    chdr = ctx.bytes('chdr', csz)
    want = L.decode('CHDR', cls, little, chdr)
    plain = ctx.bytes('plain', cfg['plain'])
    comp = ctx.bytes('comp', cfg['comp'])          # opaque compressed representation
    pad = cfg.get('pad', 0)
    image = [0xEE] * pad + chdr + comp + [0xEE] * 2
    elf = _Elf(ctx, ctx.stream(image), cls, little)
    ctx.use_zlib_model([(comp, plain)] if cfg.get('valid', True) else [])
    # SHF_COMPRESSED is legal on any section type that has file contents (e.g. SHT_MIPS_DWARF for MIPS debug sections, notes, user types)
    stype = ctx.choice('sh_type', ['SHT_PROGBITS', 'SHT_NOTE', 'SHT_MIPS_DWARF', 0x80000001, 'SHT_INIT_ARRAY'])
    sec = SEC.Section(_shdr(sh_type=stype, sh_flags=0x800 | ctx.uint('otherflags', 8) & 0x7, sh_offset=pad, sh_size=csz + len(comp), sh_addralign=ctx.uint('align', 8)), '.z', elf)
    ctx.check('compressed/flag', bool(sec.compressed))
    ctx.check_eq('compressed/data_size', sec.data_size, want['ch_size'])
    ctx.check_eq('compressed/data_alignment', sec.data_alignment, want['ch_addralign'])
    zerr = ctx.lib('elf.sections').zlib.error
    try:
        d = sec.data()
    except EXC.ELFCompressionError:
        ctx.outcome('rejected')
        ok = ctx.lor(want['ch_type'] != 1, want['ch_size'] != len(plain), not cfg.get('valid', True))
        ctx.check('compressed/rejected-only-for-unknown-type-or-size-mismatch', ok)
        return
    except zerr:
        ctx.outcome('zlib-error')
        ctx.check('compressed/zlib-error-only-for-garbage', not cfg.get('valid', True))
        return
    except ValueError:
        # the statement does not fix the exception type for unsupported compression types; any rejection is accepted there
        ctx.outcome('rejected-other')
        ctx.check('compressed/other-error-only-for-unknown-type', want['ch_type'] != 1)
        return
    ctx.outcome('ok')
    ctx.check('compressed/type-is-zlib', want['ch_type'] == 1)
    ctx.check('compressed/declared-size-equals-inflated', want['ch_size'] == len(plain))
    ctx.check_eq('compressed/payload', d, ctx.mkbytes(plain))


# ------------------------------------------------------------------ H2.3 segment data / interpreter
def h_segment(ctx):
    cfg = ctx.cfg
    n = cfg['n']
    SEG = ctx.lib('elf.segments')
    cells = ctx.bytes('f', n)
    off = ctx.int_range('p_offset', 0, n)
    size = ctx.int_range('p_filesz', 0, cfg['maxsize'])
    ctx.assume(off + size <= n)
    st = ctx.stream(cells)
    # a complete program header; the fields the extent does not depend on are unconstrained (p_memsz may be smaller than p_filesz
    # for everything but PT_LOAD: the note segment of a core file has p_memsz = 0)
    hdr = {'p_type': ctx.choice('p_type', ['PT_NOTE', 'PT_LOAD', 'PT_PHDR', 'PT_GNU_STACK', 0x60000001]), 'p_offset': off, 'p_filesz': size,
           'p_memsz': ctx.uint('p_memsz', 64), 'p_vaddr': ctx.uint('p_vaddr', 64), 'p_paddr': ctx.uint('p_paddr', 64), 'p_flags': ctx.uint('p_flags', 32),
           'p_align': ctx.uint('p_align', 64)}
    seg = SEG.Segment(hdr, st)
    st.seek(1)
    d = seg.data()
    ctx.outcome('ok')
    o, k = ctx.concretize(off), ctx.concretize(size)
    ctx.check_eq('segment/data', d, ctx.mkbytes(cells[o:o + k]))


def h_interp(ctx):
    cfg = ctx.cfg
    n = cfg['n']
    SEG = ctx.lib('elf.segments')
    EXC = ctx.lib('common.exceptions')
    cells = [ctx.int_range('f[%d]' % i, 0, 127) for i in range(n)]
    off = ctx.int_range('p_offset', 0, n - 1)
    st = ctx.stream(cells)
    seg = SEG.InterpSegment(phdr(p_type='PT_INTERP', p_offset=off, p_filesz=n, p_memsz=n), st)
    o = ctx.concretize(off)
    end = None
    for i in range(o, n):
        if ctx.fork(cells[i] == 0):
            end = i
            break
    try:
        name = seg.get_interp_name()
    except EXC.ELFParseError:
        ctx.outcome('unterminated')
        ctx.check('interp/error-only-without-terminator', end is None)
        return
    ctx.outcome('ok')
    ctx.check('interp/terminated', end is not None)
    if end is not None:
        ctx.check_eq('interp/name', list(name.encode('ascii')) if name else [], list(cells[o:end]))


TEXTS = ['/lib/ld.so', '/opt/f\u00fcr/ld.so.1', '/\u30c4\u30fc\u30eb/ld', '\u00e9', 'a\u20acb\U0001f600c']


def h_text(ctx):
    """names are stored as UTF-8: the interpreter path and string-table strings with multi-byte characters come back as the same
    text (ground instances; the symbolic harnesses cover 7-bit contents)"""
    SEG = ctx.lib('elf.segments')
    SEC = ctx.lib('elf.sections')
    cfg = ctx.cfg
    text = TEXTS[cfg['text']]
    raw = list(text.encode('utf-8'))
    pre = cfg.get('pre', 0)
    image = [0x41] * pre + raw + [0] + [0x42] * 3
    seg = SEG.InterpSegment(phdr(p_type='PT_INTERP', p_offset=pre, p_filesz=len(raw) + 1, p_memsz=len(raw) + 1), ctx.stream(image))
    ctx.outcome('ok')
    ctx.check_eq('text/interp', seg.get_interp_name(), text)
    elf = _Elf(ctx, ctx.stream(image), 64, True)
    sec = SEC.StringTableSection(_shdr(sh_type='SHT_STRTAB', sh_offset=0, sh_size=len(image)), '.strtab', elf)
    ctx.check_eq('text/strtab', sec.get_string(pre), text)


# ------------------------------------------------------------------ H2.4 string table
def h_strtab(ctx):
    cfg = ctx.cfg
    n = cfg['n']
    SEC = ctx.lib('elf.sections')
    long = cfg.get('long', 0)       # a long string: `long` letters, then the symbolic cells
    cells = [0x41] * long + [ctx.int_range('t[%d]' % i, 0, 127) for i in range(n - long)]
    base = cfg.get('base', 0)
    image = [0x41] * base + cells + ([0x41] * cfg.get('tail', 0))
    elf = _Elf(ctx, ctx.stream(image), 64, True)
    sec = SEC.StringTableSection(_shdr(sh_type='SHT_STRTAB', sh_offset=base, sh_size=n), '.strtab', elf)
    lo, hi = cfg.get('offs', (0, n - 1))
    off = ctx.int_range('offset', lo, hi)
    s = sec.get_string(off)
    o = ctx.concretize(off)
    end = None
    for i in range(base + o, len(image)):
        if ctx.fork(image[i] == 0):
            end = i
            break
    ctx.outcome('ok' if end is not None else 'unterminated')
    if end is None:
        ctx.check_eq('strtab/unterminated-empty', s, '')
    else:
        ctx.check_eq('strtab/string', list(s.encode('ascii')) if s else [], list(image[base + o:end]))


# ------------------------------------------------------------------ H2.5 address mapping
class _MapElf:
    pass


def h_addrmap(ctx):
    """address_offsets on a REAL file object: an image of the class given by cfg['bits'] whose k program headers carry the symbolic
    values (types restricted to kinds without a specialised segment class, which would read further tables on creation)"""
    cfg = ctx.cfg
    k = cfg['nseg']
    EF = ctx.lib('elf.elffile')
    W = cfg['bits']
    from harness.elfkit import Image
    img = Image(W, cfg.get('little', True), e_type=2)
    TYPES = [1, 0x6474e552, 7, 6, 0, 0x70000001]         # PT_LOAD, PT_GNU_RELRO, PT_TLS, PT_PHDR, PT_NULL, a processor-specific one
    segs = []
    for i in range(k):
        t = ctx.select(TYPES, ctx.int_range('p%d.type' % i, 0, len(TYPES) - 1))
        f = dict(p_type=t, p_vaddr=ctx.uint('p%d.vaddr' % i, W), p_filesz=ctx.uint('p%d.filesz' % i, W), p_offset=ctx.uint('p%d.offset' % i, W),
                 p_paddr=0, p_memsz=0, p_flags=5, p_align=1)
        segs.append(f)
        img.segment(**f)
    start = ctx.uint('start', W)
    size = ctx.uint('size', W)
    if cfg.get('xnum'):
        # extended program header numbering: e_phnum holds the escape value PN_XNUM, the count is sh_info of section header 0
        img.section('', sh_type=0, sh_info=k)
        img.add_shstrtab()
        elf = open_elf(ctx, img.build(e_phnum=0xffff))
    else:
        elf = open_elf(ctx, img.build())
    got = list(elf.address_offsets(start, size)) if cfg.get('withsize', True) else list(elf.address_offsets(start))
    if not cfg.get('withsize', True):
        size = 1
    ctx.outcome('ok')
    # reference: PT_LOAD segments that wholly contain [start, start+size), in table order
    want = []
    for s in segs:
        inside = ctx.land(s['p_type'] == 1, start >= s['p_vaddr'], start + size <= s['p_vaddr'] + s['p_filesz'])
        if ctx.fork(inside):
            want.append(start - s['p_vaddr'] + s['p_offset'])
    ctx.check_eq('addrmap/offsets', got, want)
    ctx.check_eq('addrmap/loadable-segments-enumerated', [x['p_offset'] for x in elf.iter_segments(type='PT_LOAD')],
                 [s['p_offset'] for s in segs if ctx.fork(s['p_type'] == 1)])


# ------------------------------------------------------------------ H2.6 strict section-in-segment
PTC = dict(LOAD=1, DYNAMIC=2, PHDR=6, TLS=7, EH_FRAME=0x6474e550, STACK=0x6474e551, RELRO=0x6474e552)
M64 = (1 << 64) - 1


def _ref_in_segment(ctx, sh, ph):
    """binutils ELF_SECTION_IN_SEGMENT_STRICT restricted to the four condition groups of the statement, in unsigned 64-bit arithmetic"""
    tls = (sh['sh_flags'] & 0x400) != 0
    alloc = (sh['sh_flags'] & 2) != 0
    pt = ph['p_type']
    c1 = ctx.lor(ctx.land(tls, ctx.lor(pt == PTC['TLS'], pt == PTC['RELRO'], pt == PTC['LOAD'])),
                 ctx.land(ctx.lnot(tls), pt != PTC['TLS'], pt != PTC['PHDR']))
    c2 = ctx.lnot(ctx.land(ctx.lnot(alloc), ctx.lor(pt == PTC['LOAD'], pt == PTC['DYNAMIC'], pt == PTC['EH_FRAME'], pt == PTC['STACK'], pt == PTC['RELRO'])))
    nobits = sh['sh_type'] == 8
    # unsigned 64-bit differences (bfd_vma); "x - 1" wraps for 0
    doff = (sh['sh_offset'] - ph['p_offset']) & M64
    c3 = ctx.lor(nobits, ctx.land(sh['sh_offset'] >= ph['p_offset'], doff <= ((ph['p_filesz'] - 1) & M64), ((doff + sh['sh_size']) & M64) <= ph['p_filesz']))
    daddr = (sh['sh_addr'] - ph['p_vaddr']) & M64
    c4 = ctx.lor(ctx.lnot(alloc), ctx.land(sh['sh_addr'] >= ph['p_vaddr'], daddr <= ((ph['p_memsz'] - 1) & M64), ((daddr + sh['sh_size']) & M64) <= ph['p_memsz']))
    return ctx.land(c1, c2, c3, c4)


def h_in_segment(ctx):
    cfg = ctx.cfg
    cls, little, machine = cfg['elfclass'], cfg['little'], cfg.get('machine', 'EM_X86_64')
    U = ctx.lib('common.utils')
    SEG = ctx.lib('elf.segments')
    elf = _Elf(ctx, None, cls, little, machine)
    sb = ctx.bytes('sh', L.sizeof('SHDR', cls))
    pb = ctx.bytes('ph', L.sizeof('PHDR', cls))
    sh = L.decode('SHDR', cls, little, sb)
    ph = L.decode('PHDR', cls, little, pb)
    if 'ptype' in cfg:
        ctx.assume(ph['p_type'] == cfg['ptype']) if cfg['ptype'] is not None else ctx.assume(ctx.land(*[ph['p_type'] != v for v in PTC.values()]))
    # the section does not wrap the address space / file offset space
    ctx.assume(ctx.land(sh['sh_offset'] + sh['sh_size'] <= M64, sh['sh_addr'] + sh['sh_size'] <= M64))
    shdr = U.struct_parse(elf.structs.Elf_Shdr, ctx.stream(sb))
    phdr = U.struct_parse(elf.structs.Elf_Phdr, ctx.stream(pb))
    seg = SEG.Segment(phdr, None)
    got = seg.section_in_segment(shdr)
    ctx.outcome('ok')
    want = _ref_in_segment(ctx, sh, ph)
    ctx.check('in_segment/%s' % ('ptype=%s' % cfg.get('ptype', 'any')), ctx.iff(got, want))


def _in_seg_instances(tier):
    out = []
    envs = [(64, True), (32, False)] if tier == 'quick' else ENVS
    for cls, little in envs:
        for pt in list(PTC.values()) + [None]:
            out.append(dict(elfclass=cls, little=little, ptype=pt))
        if tier == 'thorough':
            for m in ('EM_ARM', 'EM_MIPS', 'EM_AARCH64', 'EM_RISCV'):
                out.append(dict(elfclass=cls, little=little, machine=m, ptype=1))
                out.append(dict(elfclass=cls, little=little, machine=m, ptype=None))
    return out


def _strtab_instances(tier):
    out = [dict(n=n, base=b) for n in (1, 2, 5, 8) for b in (0, 3)]
    out += [dict(n=70, base=0, offs=(0, 6)), dict(n=70, base=1, offs=(60, 69)), dict(n=8, base=60, offs=(0, 7), tail=2)]
    out += [dict(n=f + 3, long=f, base=0, offs=(0, 2)) for f in (4093, 65533, 65600, 131070)]      # strings around 4, 64 and 128 KiB
    if tier == 'thorough':
        out += [dict(n=12, base=1), dict(n=130, base=0, offs=(60, 70)), dict(n=130, base=0, offs=(120, 129), tail=1)]
    return out


TIER_PARAMS = {'quick': {'conc_cap': 300}, 'thorough': {'conc_cap': 600}}

HARNESSES = [
    H('h2_1_data', h_data, lambda tier: [dict(n=n, maxsize=m, nobits=nb, elfclass=c) for (n, m) in ((12, 8),) + (((24, 16),) if tier == 'thorough' else ())
                                         for nb in (False, True) for c in (32, 64)], expect=('ok',),
      desc='Section.data(): sh_offset, sh_size and file content symbolic; raw extent exactly, NOBITS = zero block of the declared size without reading the file',
      bounds={'quick': 'file 12 bytes, size <= 8', 'thorough': 'file 24 bytes, size <= 16'}),
    H('h2_2_compressed', h_compressed,
      lambda tier: [dict(elfclass=c, little=l, plain=p, comp=3, pad=pad, valid=v) for c, l in ENVS for p in (0, 2, 5) for pad in (0, 4) for v in (True, False)],
      expect=('ok', 'rejected', 'zlib-error'),
      desc='SHF_COMPRESSED: Elf_Chdr of fully symbolic bytes per class/order; data_size/data_alignment from the header; payload returned iff type is ZLIB and the '
           'declared size equals the inflated size (zlib modelled by contract), otherwise ELFCompressionError'),
    H('h2_3_segment', h_segment, lambda tier: [dict(n=12, maxsize=8)], expect=('ok',), desc='Segment.data(): exactly [p_offset, p_offset+p_filesz)'),
    H('h2_3_text', h_text, lambda tier: [dict(text=t, pre=p) for t in range(len(TEXTS)) for p in (0, 5)], expect=('ok',), decoy=-1,
      desc='UTF-8 names with 2-, 3- and 4-byte characters: interpreter path and string-table lookup return the same text (ground)'),
    H('h2_3_interp', h_interp, lambda tier: [dict(n=n) for n in (1, 3, 6)], expect=('ok', 'unterminated'),
      desc='InterpSegment.get_interp_name(): NUL-terminated string at the (symbolic) segment start, content symbolic'),
    H('h2_4_strtab', h_strtab, _strtab_instances, expect=('ok', 'unterminated'),
      desc='StringTableSection.get_string at a symbolic offset in a table of symbolic ASCII content: bytes up to the first NUL at or after the offset; also across the 64-byte read chunk'),
    H('h2_5_addrmap', h_addrmap, lambda tier: [dict(nseg=k, bits=b, withsize=w) for k in ((0, 1, 2) if tier == 'quick' else (0, 1, 2, 3)) for b in (32, 64) for w in (True, False)] +
                   [dict(nseg=k, bits=b, withsize=True, xnum=True, little=(b == 64)) for k in (1, 2) for b in (32, 64)],
      expect=('ok',),
      desc='ELFFile.address_offsets with k segments whose type, p_vaddr, p_filesz, p_offset are symbolic and a symbolic [start, start+size): exactly the PT_LOAD segments that wholly contain the range, in order'),
    H('h2_6_in_segment', h_in_segment, _in_seg_instances, expect=('ok',),
      desc='Segment.section_in_segment with every Elf_Shdr / Elf_Phdr byte symbolic (type pinned per instance to each relevant p_type or to "any other"): equals the '
           'binutils strict rule (type x TLS, alloc x type, file extent, address extent) written in unsigned 64-bit machine arithmetic'),
]
