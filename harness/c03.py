"""C03 - symbol tables enumerate exactly; name and hash lookups are complete and sound."""
from symx.api import H
from spec import enc
from harness.elfkit import machines_of_interest, stream_length, elf_object
from spec import elf_layout as L
from spec import registry as REG

PROPERTY = 'C03'
ASSUMPTIONS = [
    'hash lookups: the pre-state is an arbitrary VALID table (representation invariant below) over n <= 3 symbols with abstract distinct names and SYMBOLIC 32-bit hash values (collisions allowed); the hash functions themselves are decided separately on symbolic names (h3_5)',
    'SysV validity: every symbol is reachable from bucket[hash mod nbucket] through an acyclic chain whose members share the bucket; chain[0] = 0',
    'GNU validity: hashed symbols sorted by bucket, chain[i]|1 == hash_i|1, end bit exactly on the last symbol of each bucket, bucket word = first index or 0, both bloom bits set for every present hash, all other bloom bits arbitrary',
    'symbol names are ASCII',
]
STUBS = ['SymStream (io.BytesIO)', 'SxPacker (struct.Struct)', 'harness symbol-table double that returns named symbols (hash lookups)', 'hash function replaced by a name->symbolic-hash map in the lookup lemmas']
OUTSIDE = ['tables with more than 3 hashed symbols / 3 buckets', 'names longer than 8 (quick) / 12 (thorough) bytes for the hash functions', 'non-ASCII names']

ENVS = [(32, True), (32, False), (64, True), (64, False)]


def _Elf(ctx, stream, cls, little, machine='EM_X86_64'):
    return elf_object(ctx, stream, cls, little, machine, 'ET_DYN')


def _shdr(**kw):
    h = dict(sh_name=0, sh_type='SHT_SYMTAB', sh_flags=0, sh_addr=0, sh_offset=0, sh_size=0, sh_link=0, sh_info=0, sh_addralign=1, sh_entsize=0)
    h.update(kw)
    return h


def _enum_ok(ctx, label, got, raw):
    conds = []
    for cond, obj in ctx.alternatives(got):
        if isinstance(obj, str):
            acc = REG.values(obj)
            if acc:
                conds.append(ctx.implies(cond, ctx.lor(*[raw == a for a in sorted(acc)])))
        else:
            conds.append(ctx.implies(cond, ctx.eq(obj, raw)))
    ctx.check(label, ctx.land(*conds))


# ------------------------------------------------------------------ H3.1 Elf_Sym layout
def h_sym_layout(ctx):
    cfg = ctx.cfg
    cls, little = cfg['elfclass'], cfg['little']
    U = ctx.lib('common.utils')
    elf = _Elf(ctx, None, cls, little)
    n = L.sizeof('SYM', cls)
    cells = ctx.bytes('s', n)
    st = ctx.stream(cells + [0xEE])
    e = U.struct_parse(elf.structs.Elf_Sym, st)
    want = L.decode('SYM', cls, little, cells)
    ctx.outcome('ok')
    ctx.check_eq('sym/consumed', st.tell(), n)
    for f in ('st_name', 'st_value', 'st_size'):
        ctx.check_eq('sym/%s' % f, e[f], want[f])
    _enum_ok(ctx, 'sym/st_info/bind', e['st_info']['bind'], want['st_info'] >> 4)
    _enum_ok(ctx, 'sym/st_info/type', e['st_info']['type'], want['st_info'] & 15)
    _enum_ok(ctx, 'sym/st_other/visibility', e['st_other']['visibility'], want['st_other'] & 7)
    _enum_ok(ctx, 'sym/st_other/local', e['st_other']['local'], want['st_other'] >> 5)
    _enum_ok(ctx, 'sym/st_shndx', e['st_shndx'], want['st_shndx'])
    # reserved indices with a standard name are named
    for cond, obj in ctx.alternatives(e['st_shndx']):
        if not isinstance(obj, str):
            ctx.check('sym/st_shndx/standard-reserved-named', ctx.implies(cond, ctx.land(want['st_shndx'] != 0, want['st_shndx'] != 0xfff1, want['st_shndx'] != 0xfff2)))


# ------------------------------------------------------------------ H3.2-3.4 tables
STRTAB = [0] + [ord(c) for c in 'ab\0c\0ab\0']         # 0:'' 1:'ab' 2:'b' 4:'c' 6:'ab' 7:'b'


def _ref_str(o):
    e = o
    while STRTAB[e] != 0:
        e += 1
    return ''.join(chr(c) for c in STRTAB[o:e])


def _mk_symtab(ctx, cfg, nsym_symbolic_names):
    cls, little = cfg['elfclass'], cfg['little']
    SEC = ctx.lib('elf.sections')
    k = cfg['k']
    symsz = L.sizeof('SYM', cls)
    entsize = symsz + cfg.get('slack', 0)
    base = cfg.get('base', 0)
    image = [0xEE] * base
    stroff = len(image)
    image += STRTAB
    symoff = len(image)
    syms = []
    A = 32 if cls == 32 else 64
    for i in range(k):
        if i < nsym_symbolic_names:
            nm = ctx.int_range('sym%d.name' % i, 0, len(STRTAB) - 1)
        else:
            nm = [1, 4, 6, 2][i % 4]
        # info/other/shndx are symbolic for one symbol only (each enumerated sub-field forks in/out of its table; the
        # full layout of these fields is h3_1's job), concrete and varied for the others
        if i == cfg.get('symenum', 0):
            info, other, shndx = ctx.uint('sym%d.info' % i, 8), ctx.uint('sym%d.other' % i, 8), ctx.uint('sym%d.shndx' % i, 16)
        else:
            info, other, shndx = [0x12, 0x21, 0xa5][i % 3], [0, 2, 0x63][i % 3], [1, 0xfff1, 0x1234][i % 3]
        v = dict(st_name=nm, st_value=ctx.uint('sym%d.value' % i, A), st_size=ctx.uint('sym%d.size' % i, A), st_info=info,
                 st_other=other, st_shndx=shndx)
        syms.append(v)
        image += L.encode('SYM', cls, little, v) + [0x5A] * (entsize - symsz)
    image += [0xEE] * 3
    elf = _Elf(ctx, ctx.stream(image), cls, little)
    strtab = SEC.StringTableSection(_shdr(sh_type='SHT_STRTAB', sh_offset=stroff, sh_size=len(STRTAB)), '.strtab', elf)
    symtab = SEC.SymbolTableSection(_shdr(sh_offset=symoff, sh_size=k * entsize, sh_entsize=entsize), '.symtab', elf, strtab)
    return elf, symtab, syms


def h_symtab(ctx):
    cfg = ctx.cfg
    elf, symtab, syms = _mk_symtab(ctx, cfg, cfg.get('symnames', 1))
    k = cfg['k']
    ctx.outcome('ok')
    ctx.check_eq('symtab/num_symbols', symtab.num_symbols(), k)
    got = ctx.walk(lambda: symtab.iter_symbols())
    ctx.check_eq('symtab/iter/count', len(got), k)
    for i, (s, w) in enumerate(zip(got, syms)):
        ctx.check_eq('symtab/st_value', s['st_value'], w['st_value'])
        ctx.check_eq('symtab/st_size', s['st_size'], w['st_size'])
        ctx.check_eq('symtab/st_name', s['st_name'], w['st_name'])
        ctx.check_eq('symtab/name', s.name, _ref_str(ctx.concretize(w['st_name'])))
        _enum_ok(ctx, 'symtab/bind', s['st_info']['bind'], w['st_info'] >> 4)
        _enum_ok(ctx, 'symtab/type', s['st_info']['type'], w['st_info'] & 15)
        _enum_ok(ctx, 'symtab/shndx', s['st_shndx'], w['st_shndx'])
    if k:
        n = ctx.int_range('n', 0, k - 1)
        s = symtab.get_symbol(n)
        j = ctx.concretize(n)
        ctx.check_eq('symtab/get_symbol(n)', [s['st_value'], s['st_size'], s['st_name']], [syms[j]['st_value'], syms[j]['st_size'], syms[j]['st_name']])


def h_text(ctx):
    """non-ASCII (UTF-8) symbol names: enumeration and lookup by name (ground)"""
    cfg = ctx.cfg
    cls, little = cfg['elfclass'], cfg['little']
    SEC = ctx.lib('elf.sections')
    names = ['', 'gr\u00fc\u00dfe', '\u65e5\u672c', 'f', 'gr\u00fc\u00dfe']
    tab, offs = [0], {'': 0}
    for nm in names[1:]:
        if nm not in offs:
            offs[nm] = len(tab)
            tab += list(nm.encode('utf-8')) + [0]
    symsz = L.sizeof('SYM', cls)
    image = list(tab)
    symoff = len(image)
    for i, nm in enumerate(names):
        image += L.encode('SYM', cls, little, dict(st_name=offs[nm], st_value=0x10 + i, st_size=0, st_info=0x12, st_other=0, st_shndx=1))
    elf = _Elf(ctx, ctx.stream(image), cls, little)
    strtab = SEC.StringTableSection(_shdr(sh_type='SHT_STRTAB', sh_offset=0, sh_size=len(tab)), '.strtab', elf)
    symtab = SEC.SymbolTableSection(_shdr(sh_offset=symoff, sh_size=len(names) * symsz, sh_entsize=symsz), '.symtab', elf, strtab)
    ctx.outcome('ok')
    ctx.check_eq('text/names', [s.name for s in ctx.walk(lambda: symtab.iter_symbols())], names)
    for q in names[1:4]:
        r = symtab.get_symbol_by_name(q)
        ctx.check_eq('text/by-name/' + q.encode('unicode_escape').decode(), None if r is None else [x['st_value'] for x in r], [0x10 + i for i, n in enumerate(names) if n == q])
    ctx.check('text/by-name/absent', symtab.get_symbol_by_name('gr\u00fc') is None)


def h_two_tables(ctx):
    """two symbol tables of one file whose sections bear the SAME name (section names need not be unique; in a file with stripped
    section names all are ''): each table answers name lookups from its own symbols, whatever was asked of the other before"""
    cfg = ctx.cfg
    cls, little = cfg['elfclass'], cfg['little']
    SEC = ctx.lib('elf.sections')
    tab = [0, 0x61, 0, 0x62, 0]                     # 1:'a' 3:'b'
    symsz = L.sizeof('SYM', cls)
    image = list(tab)
    arrays = ([0, 1], [0, 3, 1])                    # name offsets of table 1 and table 2
    offs = []
    for arr in arrays:
        offs.append(len(image))
        for i, no in enumerate(arr):
            image += L.encode('SYM', cls, little, dict(st_name=no, st_value=0x10 * len(offs) + i, st_size=0, st_info=0x12, st_other=0, st_shndx=1))
    elf = _Elf(ctx, ctx.stream(image), cls, little)
    strtab = SEC.StringTableSection(_shdr(sh_type='SHT_STRTAB', sh_offset=0, sh_size=len(tab)), '', elf)

    def table(i):
        return SEC.SymbolTableSection(_shdr(sh_type='SHT_DYNSYM' if i else 'SHT_SYMTAB', sh_offset=offs[i], sh_size=len(arrays[i]) * symsz, sh_entsize=symsz), cfg['name'], elf, strtab)

    def look(t, q):
        r = t.get_symbol_by_name(q)
        return None if r is None else [x['st_value'] for x in r]
    ctx.outcome('ok')
    t1 = table(0)
    ctx.check_eq('two-tables/first/a', look(t1, 'a'), [0x11])
    t2 = table(1)
    ctx.check_eq('two-tables/second/b', look(t2, 'b'), [0x21])
    ctx.check_eq('two-tables/second/a', look(t2, 'a'), [0x22])
    ctx.check_eq('two-tables/first/b-absent', look(t1, 'b'), None)
    ctx.check_eq('two-tables/first-again', look(table(0), 'a'), [0x11])
    ctx.check_eq('two-tables/second-again/absent', look(table(1), 'zz'), None)


def h_by_name(ctx):
    cfg = ctx.cfg
    elf, symtab, syms = _mk_symtab(ctx, dict(cfg, symenum=-1), cfg['symnames'])
    k = cfg['k']
    names = [_ref_str(ctx.concretize(w['st_name'])) for w in syms]
    if cfg.get('warm'):
        symtab.get_symbol_by_name('zz')
    ctx.outcome('ok')
    for q in ('', 'ab', 'b', 'c', 'zz', 'a'):
        r = symtab.get_symbol_by_name(q)
        want_idx = [i for i, n in enumerate(names) if n == q]
        if not want_idx:
            ctx.check('by_name/absent-none', r is None)
        else:
            ctx.check('by_name/present', r is not None and len(r) == len(want_idx))
            if r is not None and len(r) == len(want_idx):
                ctx.check_eq('by_name/symbols', [(s.name, s['st_value']) for s in r], [(q, syms[i]['st_value']) for i in want_idx])


def h_shndx_table(ctx):
    cfg = ctx.cfg
    cls, little = cfg['elfclass'], cfg['little']
    SEC = ctx.lib('elf.sections')
    k = cfg['k']
    entsize = 4 + cfg.get('slack', 0)
    base = cfg.get('base', 0)
    words = [ctx.uint('w%d' % i, 32) for i in range(k)]
    image = [0xEE] * base
    for w in words:
        image += enc.enc_int(w, 4, little) + [0x5A] * (entsize - 4)
    image += [0xEE] * 2
    elf = _Elf(ctx, ctx.stream(image), cls, little)
    sec = SEC.SymbolTableIndexSection(_shdr(sh_type='SHT_SYMTAB_SHNDX', sh_offset=base, sh_size=k * entsize, sh_entsize=entsize), '.symtab_shndx', elf, 1)
    n = ctx.int_range('n', 0, k - 1)
    got = sec.get_section_index(n)
    ctx.outcome('ok')
    ctx.check_eq('shndx/word', got, ctx.select(words, n))


def h_syminfo(ctx):
    cfg = ctx.cfg
    cls, little = cfg['elfclass'], cfg['little']
    SEC = ctx.lib('elf.sections')
    k = cfg['k']
    elf0, symtab, syms = _mk_symtab(ctx, dict(cfg, k=k + 1, symenum=-1), 0)
    recs = [(ctx.uint('si%d.boundto' % i, 16), ctx.uint('si%d.flags' % i, 16)) for i in range(k + 1)]
    image = []
    for b, f in recs:
        image += enc.enc_int(b, 2, little) + enc.enc_int(f, 2, little)
    elf = _Elf(ctx, ctx.stream(image + [0xEE]), cls, little, 'EM_SPARC')
    sec = SEC.SUNWSyminfoTableSection(_shdr(sh_type='SHT_SUNW_syminfo', sh_offset=0, sh_size=4 * (k + 1), sh_entsize=4), '.SUNW_syminfo', elf, symtab)
    ctx.outcome('ok')
    ctx.check_eq('syminfo/num_symbols', sec.num_symbols(), k)
    got = ctx.walk(lambda: sec.iter_symbols())
    ctx.check_eq('syminfo/count', len(got), k)
    for i, s in enumerate(got):
        _enum_ok(ctx, 'syminfo/boundto', s['si_boundto'], recs[i + 1][0])
        ctx.check_eq('syminfo/flags', s['si_flags'], recs[i + 1][1])
        ctx.check_eq('syminfo/name', s.name, _ref_str(syms[i + 1]['st_name']))


# ------------------------------------------------------------------ H3.5 hash functions
def _ref_elf_hash32(ctx, cells):
    h = 0
    for c in cells:
        h = ((h << 4) + c) & 0xffffffff
        g = h & 0xf0000000
        h = ctx.ite(g != 0, h ^ (g >> 24), h)
        h = h & (~g & 0xffffffff)
    return h


def _ref_gnu_hash32(cells):
    h = 5381
    for c in cells:
        h = (h * 33 + c) & 0xffffffff
    return h


def h_hashfn(ctx):
    cfg = ctx.cfg
    HM = ctx.lib('elf.hash')
    n = cfg['n']
    cells = [ctx.int_range('c[%d]' % i, 1, 255) for i in range(n)]
    name = ctx.mkbytes(cells)
    ctx.outcome('ok')
    if cfg['fn'] == 'elf':
        ctx.check_eq('elf_hash/32-bit-gABI', HM.ELFHashTable.elf_hash(name), _ref_elf_hash32(ctx, cells))
    else:
        ctx.check_eq('gnu_hash/32-bit', HM.GNUHashTable.gnu_hash(name), _ref_gnu_hash32(cells))


def h_hashfn_str(ctx):
    """str names are hashed through their UTF-8 bytes (ASCII here)"""
    HM = ctx.lib('elf.hash')
    ctx.outcome('ok')
    for s in ('', 'a', 'printf', 'memcpy@@GLIBC_2.14'):
        b = s.encode()
        ctx.check_eq('hash/str-equals-bytes/elf', HM.ELFHashTable.elf_hash(s), HM.ELFHashTable.elf_hash(b))
        ctx.check_eq('hash/str-equals-bytes/gnu', HM.GNUHashTable.gnu_hash(s), HM.GNUHashTable.gnu_hash(b))
    ctx.check_eq('hash/gnu-known', HM.GNUHashTable.gnu_hash('printf'), 0x156b2bb8)
    ctx.check_eq('hash/elf-known', HM.ELFHashTable.elf_hash('printf'), 0x077905a6)


# ------------------------------------------------------------------ H3.6 / H3.7 lookups
class _SymDouble:
    """symbol table double: returns named symbols and, like the real SymbolTableSection / DynamicSegment, reads from the
    SHARED file stream while doing so (it leaves the stream somewhere else)"""
    def __init__(self, ctx, names, stream=None):
        self.ctx = ctx
        self.names = names
        self.stream = stream
        self.Symbol = ctx.lib('elf.sections').Symbol

    def get_symbol(self, idx):
        idx = self.ctx.concretize(idx)
        if not 0 <= idx < len(self.names):
            raise IndexError('symbol index %d outside the table' % idx)
        if self.stream is not None:
            self.stream.seek(0)
            self.stream.read(1)
        # a complete entry, as the real tables hand out; the section index is arbitrary (SHN_UNDEF included: an undefined symbol
        # placed in the hashed part - e.g. a canonical PLT entry - is found like any other)
        shndx = self.ctx.choice('sym%d.shndx' % idx, ['SHN_UNDEF', 1, 'SHN_ABS', 0x1234])
        entry = {'st_name': 0, 'st_value': 0x100 + idx, 'st_size': 0, 'st_info': {'bind': 'STB_GLOBAL', 'type': 'STT_FUNC'},
                 'st_other': {'visibility': 'STV_DEFAULT', 'local': 0}, 'st_shndx': shndx}
        return self.Symbol(entry, self.names[idx])


def hash_word_size(machine, cls):
    """SysV hash tables consist of 32-bit words, except in the two 64-bit ABIs that define 64-bit hash entries (sh_entsize 8):
    Alpha and s390x (Alpha psABI; zSeries ELF ABI supplement 'Hash table'; binutils elf64-alpha.c / elf64-s390.c, readelf.c)"""
    return 8 if cls == 64 and machine in ('EM_ALPHA', 'EM_S390') else 4


def h_sysv_lookup(ctx):
    cfg = ctx.cfg
    cls, little, n, NB = cfg['elfclass'], cfg['little'], cfg['n'], cfg['nbucket']
    HM = ctx.lib('elf.hash')
    names = [''] + ['n%d' % i for i in range(1, n + 1)]
    h = {names[i]: ctx.uint('h%d' % i, 32) for i in range(1, n + 1)}
    h['q'] = ctx.uint('hq', 32)
    buckets = [ctx.int_range('bucket%d' % b, 0, n) for b in range(NB)]
    chains = [0] + [ctx.int_range('chain%d' % i, 0, n) for i in range(1, n + 1)]
    rank = [None] + [ctx.int_range('rank%d' % i, 0, n) for i in range(1, n + 1)]
    bidx = [None] + [h[names[i]] % NB for i in range(1, n + 1)]
    A = []
    for i in range(1, n + 1):
        for j in range(1, n + 1):
            # a chain link j -> i: same bucket, strictly increasing rank (acyclic)
            A.append(ctx.implies(chains[j] == i, ctx.land(bidx[j] == bidx[i], rank[i] > rank[j])))
        A.append(chains[i] != i)
    for b in range(NB):
        for i in range(1, n + 1):
            A.append(ctx.implies(buckets[b] == i, bidx[i] == b))

    def head(i, j):           # bucket of symbol i starts at symbol j
        return ctx.lor(*[ctx.land(bidx[i] == b, buckets[b] == j) for b in range(NB)])
    for i in range(1, n + 1):
        alts = [head(i, i)]
        for j in range(1, n + 1):
            if j == i:
                continue
            alts.append(ctx.land(chains[j] == i, head(i, j)))
            for k in range(1, n + 1):
                if k in (i, j):
                    continue
                alts.append(ctx.land(chains[j] == i, chains[k] == j, head(i, k)))
        A.append(ctx.lor(*alts))
    ctx.assume(ctx.land(*A))
    words = [NB, n + 1] + buckets + chains
    data = []
    machine = cfg.get('machine', 'EM_X86_64')
    wsz = hash_word_size(machine, cls)
    for w in words:
        data += enc.enc_int(w, wsz, little)
    elf = _Elf(ctx, ctx.stream([0xEE] * cfg.get('base', 0) + data + [0xEE]), cls, little, machine)
    orig = HM.ELFHashTable.__dict__['elf_hash']       # the staticmethod object itself
    HM.ELFHashTable.elf_hash = staticmethod(lambda name: h[name])
    try:
        tab = HM.ELFHashTable(elf, cfg.get('base', 0), _SymDouble(ctx, names, elf.stream))
        q = cfg['query']
        r = tab.get_symbol(q)
        cnt = tab.get_number_of_symbols()
    finally:
        HM.ELFHashTable.elf_hash = orig
    ctx.outcome('present' if q != 'q' else 'absent')
    if q == 'q':
        ctx.check('sysv/sound/absent-name-yields-none', r is None)
    else:
        ctx.check('sysv/complete/present-name-found', r is not None and r.name == q)
    ctx.check_eq('sysv/count', cnt, n + 1)


def h_sysv_empty(ctx):
    cfg = ctx.cfg
    HM = ctx.lib('elf.hash')
    little = cfg['little']
    data = enc.enc_int(0, 4, little) + enc.enc_int(1, 4, little) + enc.enc_int(0, 4, little)
    elf = _Elf(ctx, ctx.stream(data), cfg['elfclass'], little)
    tab = HM.ELFHashTable(elf, 0, _SymDouble(ctx, ['']))
    ctx.outcome('ok')
    ctx.check('sysv/nbucket-0-none', tab.get_symbol('x') is None)
    ctx.check_eq('sysv/nbucket-0-count', tab.get_number_of_symbols(), 1)


def h_gnu_lookup(ctx):
    cfg = ctx.cfg
    cls, little, n, NB, SYMOFF, BS = cfg['elfclass'], cfg['little'], cfg['n'], cfg['nbuckets'], cfg['symoffset'], cfg['bloom_size']
    HM = ctx.lib('elf.hash')
    C = cls
    names = [''] * SYMOFF + ['n%d' % i for i in range(1, n + 1)]
    if SYMOFF:
        names[0] = ''
        for i in range(1, SYMOFF):
            names[i] = 'u%d' % i
    hs = [ctx.uint('h%d' % i, 32) for i in range(1, n + 1)]
    h = {'n%d' % (i + 1): hs[i] for i in range(n)}
    h['q'] = ctx.uint('hq', 32)
    shift = ctx.uint('shift', 5)
    bloom = [ctx.uint('bloom%d' % i, C) for i in range(BS)]
    buckets = [ctx.uint('bucket%d' % b, 32) for b in range(NB)]
    chains = [ctx.uint('chain%d' % i, 32) for i in range(n)]
    bidx = [hv % NB for hv in hs]
    A = []
    # the symbols of one bucket are contiguous (one chain); the chains may follow each other in any bucket order (linkers sort
    # them by bucket, the format does not require it)
    for i in range(n):
        for k in range(i + 2, n):
            for j in range(i + 1, k):
                A.append(ctx.implies(bidx[i] == bidx[k], bidx[j] == bidx[i]))
    for i in range(n):
        A.append((chains[i] | 1) == (hs[i] | 1))
        last = True if i == n - 1 else (bidx[i] != bidx[i + 1])
        A.append(ctx.iff((chains[i] & 1) == 1, last))
    for b in range(NB):
        for i in range(n):
            first = ctx.land(bidx[i] == b, *[bidx[j] != b for j in range(i)])
            A.append(ctx.implies(first, buckets[b] == SYMOFF + i))
        A.append(ctx.implies(ctx.land(*[bidx[i] != b for i in range(n)]), buckets[b] == 0))
    for hv in hs:
        word = ctx.select(bloom, (hv // C) % BS) if BS > 1 else bloom[0]
        A.append(((word >> (hv % C)) & 1) == 1)
        A.append(((word >> ((hv >> shift) % C)) & 1) == 1)
    ctx.assume(ctx.land(*A))
    data = []
    for w in [NB, SYMOFF, BS, shift]:
        data += enc.enc_int(w, 4, little)
    for w in bloom:
        data += enc.enc_int(w, C // 8, little)
    for w in buckets + chains:
        data += enc.enc_int(w, 4, little)
    elf = _Elf(ctx, ctx.stream([0xEE] * cfg.get('base', 0) + data + [0xEE] * 4), cls, little)
    orig = HM.GNUHashTable.__dict__['gnu_hash']
    HM.GNUHashTable.gnu_hash = staticmethod(lambda name: h[name])
    try:
        tab = HM.GNUHashTable(elf, cfg.get('base', 0), _SymDouble(ctx, names, elf.stream))
        q = cfg['query']
        r = tab.get_symbol(q)
        cnt = tab.get_number_of_symbols()
    finally:
        HM.GNUHashTable.gnu_hash = orig
    ctx.outcome('present' if q != 'q' else 'absent')
    if q == 'q':
        ctx.check('gnu/sound/absent-name-yields-none', r is None)
    else:
        ctx.check('gnu/complete/present-name-found', r is not None and r.name == q)
    ctx.check_eq('gnu/count', cnt, SYMOFF + n)


def h_gnu_empty(ctx):
    """no hashed symbols: count = symoffset, every lookup misses"""
    cfg = ctx.cfg
    cls, little = cfg['elfclass'], cfg['little']
    HM = ctx.lib('elf.hash')
    so = cfg['symoffset']
    bloomw = ctx.uint('bloom', cls)
    data = []
    for w in [1, so, 1, 0]:
        data += enc.enc_int(w, 4, little)
    data += enc.enc_int(bloomw, cls // 8, little) + enc.enc_int(0, 4, little)
    elf = _Elf(ctx, ctx.stream(data + [0xEE] * 4), cls, little)
    tab = HM.GNUHashTable(elf, 0, _SymDouble(ctx, [''] * so))
    ctx.outcome('ok')
    ctx.check_eq('gnu/empty/count', tab.get_number_of_symbols(), so)
    ctx.check('gnu/empty/miss', tab.get_symbol('printf') is None)


# ------------------------------------------------------------------ instances
def _sysv_instances(tier):
    out = []
    for cls, little in ((64, True), (32, False)):
        for n in ((1, 2) if tier == 'quick' else (1, 2, 3)):
            for nb in ((1, 2) if tier == 'quick' else (1, 2, 3)):
                for q in ['n%d' % i for i in range(1, n + 1)] + ['q']:
                    out.append(dict(elfclass=cls, little=little, n=n, nbucket=nb, query=q, base=4 if cls == 32 else 0))
    # the word size is a property of the ABI: every machine the current source treats specially somewhere, plus the two with 64-bit words
    for m in sorted(set(machines_of_interest()) | {'EM_ALPHA', 'EM_S390'}):
        envs = ENVS if m in ('EM_ALPHA', 'EM_S390') else ((64, True), (32, False))
        for cls, little in envs:
            for q in ('n1', 'n2', 'q'):
                out.append(dict(elfclass=cls, little=little, n=2, nbucket=2, query=q, base=0, machine=m))
    return out


def _gnu_instances(tier):
    out = []
    for cls, little in ((64, True), (32, False)) if tier == 'quick' else ENVS:
        for n in (1, 2) if tier == 'quick' else (1, 2, 3):
            for nb in (1, 2) if tier == 'quick' else (1, 2, 3):
                for so, bs in ((1, 1), (2, 2)) if tier == 'quick' else ((0, 1), (1, 1), (2, 2)):
                    if n == 3 and (nb == 3 and bs == 2):
                        continue
                    for q in ['n%d' % i for i in range(1, n + 1)] + ['q']:
                        out.append(dict(elfclass=cls, little=little, n=n, nbuckets=nb, symoffset=so, bloom_size=bs, query=q, base=8 if so == 2 else 0))
    return out


TIER_PARAMS = {'quick': {'conc_cap': 300}, 'thorough': {'conc_cap': 600, 'deadline_s': 3000}}

HARNESSES = [
    H('h3_1_sym_layout', h_sym_layout, lambda tier: [dict(elfclass=c, little=l) for c, l in ENVS], expect=('ok',),
      desc='Elf_Sym of fully symbolic bytes: st_name/value/size, bind = info>>4, type = info&15, visibility = other&7, local = other>>5, st_shndx (named iff reserved with a standard name)'),
    H('h3_2_symtab', h_symtab, lambda tier: [dict(elfclass=c, little=l, k=k, slack=s, base=b, symnames=1, symenum=e) for c, l in ENVS for (k, s, b, e) in ((0, 0, 0, 0), (2, 0, 3, 1), (3, 8, 0, 2), (3, 0, 1, 0))], expect=('ok',),
      desc='SymbolTableSection over generated tables (entry-size slack, offset): num_symbols, iteration order, every field, names via symbolic st_name, get_symbol(n) with symbolic n'),
    H('h3_3_shndx', h_shndx_table, lambda tier: [dict(elfclass=c, little=l, k=3, slack=s, base=b) for c, l in ENVS for (s, b) in ((0, 0), (4, 6))], expect=('ok',),
      desc='SymbolTableIndexSection.get_section_index(n): word n at sh_offset + n*sh_entsize, n symbolic'),
    H('h3_3_syminfo', h_syminfo, lambda tier: [dict(elfclass=c, little=l, k=k) for c, l in ENVS for k in (0, 2)], expect=('ok',),
      desc='SUNWSyminfoTableSection: entries 1..n in order with names from the linked symbol table'),
    H('h3_4_by_name', h_by_name, lambda tier: [dict(elfclass=c, little=l, k=3, symnames=(2 if tier == 'quick' else 3), warm=w) for c, l in ((64, True), (32, False)) for w in (False, True)], expect=('ok',),
      desc='get_symbol_by_name with symbolic st_name offsets (duplicates and suffix names arise): exactly the symbols bearing the name, None otherwise, also after the map was built by an earlier query'),
    H('h3_4_two_tables', h_two_tables, lambda tier: [dict(elfclass=c, little=l, name=n) for c, l in ((64, True), (32, False)) for n in ('', '.symtab')], expect=('ok',), decoy=-1,
      desc='two symbol tables of one file under the same section name: lookups by name are answered per table, in any order of questions (ground)'),
    H('h3_4_text', h_text, lambda tier: [dict(elfclass=c, little=l) for c, l in ((64, True), (32, False))], expect=('ok',), decoy=-1,
      desc='symbol names with multi-byte UTF-8 characters: enumeration and lookup by name (ground)'),
    H('h3_5_hashfn', h_hashfn, lambda tier: [dict(fn=f, n=n) for f in ('elf', 'gnu') for n in range(0, (9 if tier == 'quick' else 13))], expect=('ok',),
      desc='elf_hash equals the gABI routine and gnu_hash equals h*33+c, both in 32-bit wrapping arithmetic, for every name of n symbolic non-NUL bytes'),
    H('h3_5_hashfn_str', h_hashfn_str, lambda tier: [dict()], expect=('ok',), desc='str names hash as their bytes; known values'),
    H('h3_6_sysv_lookup', h_sysv_lookup, _sysv_instances, expect=('present', 'absent'),
      desc='ELFHashTable.get_symbol / get_number_of_symbols from an arbitrary valid table over n symbols with symbolic hashes, buckets and chains: complete and sound'),
    H('h3_6_sysv_empty', h_sysv_empty, lambda tier: [dict(elfclass=64, little=True), dict(elfclass=32, little=False)], expect=('ok',), desc='nbucket = 0'),
    H('h3_7_gnu_lookup', h_gnu_lookup, _gnu_instances, expect=('present', 'absent'),
      desc='GNUHashTable.get_symbol / get_number_of_symbols from an arbitrary valid table (symbolic hashes, bloom words, shift, buckets, chains; bloom false positives allowed): complete and sound'),
    H('h3_7_gnu_empty', h_gnu_empty, lambda tier: [dict(elfclass=c, little=l, symoffset=s) for c, l in ((64, True), (32, False)) for s in (1, 5)], expect=('ok',), desc='GNU table without hashed symbols'),
]
