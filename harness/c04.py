"""C04 - debugging-information entries are decoded into exactly the encoded tree."""
from symx.api import H
from spec import enc
from spec import dwarf_forms as F
from spec import registry as REG
from harness.dwarfkit import mk_dwarfinfo, unit_header, abbrev_table, _uleb
from harness import c13 as C13

PROPERTY = 'C04'
ASSUMPTIONS = [
    'inputs are well-formed skeletons: the structure (which forms, how many bytes each LEB128 occupies, block lengths, tree shape) is fixed per instance and the solver owns every value',
    'index forms (strx*, addrx*, loclistx, rnglistx) and string offsets designate entries of small side tables (index symbolic over the table)',
    'tree shapes are enumerated completely up to the stated number of entries; sibling references are consistent with the layout',
]
STUBS = ['SymStream (io.BytesIO)', 'SxPacker (struct.Struct)']
OUTSIDE = ['supplementary-file forms (strp_sup, ref_sup4/8, GNU_ref_alt, GNU_strp_alt) beyond their raw value', 'trees with more than 6 (quick) / 7 (thorough) entries',
           'LEB128 values longer than 3 bytes, blocks longer than 3 bytes, strings longer than 3 chars', 'non-ASCII strings']

ENVS_Q = [dict(version=4, fmt64=False, little=True, addr=8), dict(version=5, fmt64=True, little=False, addr=4), dict(version=2, fmt64=False, little=False, addr=4)]
ENVS_T = [dict(version=v, fmt64=f, little=l, addr=a) for v in (2, 3, 4, 5) for f in (False, True) for l in (True, False) for a in (4, 8)]

TAG_CU, TAG_VAR, TAG_NS = 0x11, 0x34, 0x39
AT = dict(sibling=0x01, name=0x03, const_value=0x1c, str_offsets_base=0x72, addr_base=0x73, rnglists_base=0x74, loclists_base=0x8c, location=0x02, type=0x49, ranges=0x55)
STRTAB = [0] + [ord(c) for c in 'ab\0cde\0']            # starts: 0:'' 1:'ab' 4:'cde'
STR_STARTS = [0, 1, 4, 2, 5]                            # also offsets into the middle of a string
LINESTR = [ord(c) for c in 'xy\0z\0']


def _cstr(tab, o):
    e = o
    while tab[e] != 0:
        e += 1
    return bytes(tab[o:e])


def _env(e):
    return F.Env(e['version'], e['fmt64'], e['little'], e['addr'])


# ------------------------------------------------------------------ H4.1 unit headers
def h_unit_header(ctx):
    cfg = ctx.cfg
    e = cfg['env']
    E = _env(e)
    ut = cfg.get('unit_type', 'compile')
    tu = cfg.get('tu', False)
    A = 64 if E.fmt64 else 32
    abbrev = ctx.uint('abbrev_off', A)
    dwo = ctx.uint('dwo_id', 64)
    sig = ctx.uint('signature', 64)
    toff = ctx.uint('type_offset', A)
    pad = cfg.get('pad_units', 0)
    sec = []
    for _ in range(pad):
        h0, _hs = unit_header(4, False, E.little, 8, 0, body_len=1)
        sec += h0 + [0]
    off = len(sec)
    h, hsz = unit_header(E.version, E.fmt64, E.little, E.addr, abbrev, ut, body_len=2, dwo_id=dwo, signature=sig, type_offset=toff, tu=tu)
    sec += h + [0, 0]
    name = 'debug_types' if tu else 'debug_info'
    di, _ = mk_dwarfinfo(ctx, E.little, E.addr, **{name: sec, 'debug_abbrev': [0]})
    units = list(di.iter_TUs() if tu else di.iter_CUs())
    ctx.outcome('ok')
    ctx.check_eq('unit/count', len(units), pad + 1)
    if len(units) != pad + 1:
        return
    u = units[-1]
    label = 'unit/%s' % ('tu' if tu else ut)
    ctx.check_eq(label + '/offset', u.cu_offset, off)
    ctx.check_eq(label + '/die_offset', u.cu_die_offset, off + hsz)
    ctx.check_eq(label + '/size', u.size, len(h) + 2)
    ctx.check_eq(label + '/unit_length', u['unit_length'], len(h) + 2 - (12 if E.fmt64 else 4))
    ctx.check_eq(label + '/version', u['version'], E.version)
    ctx.check_eq(label + '/address_size', u['address_size'], E.addr)
    ctx.check_eq(label + '/debug_abbrev_offset', u['debug_abbrev_offset'], abbrev)
    ctx.check_eq(label + '/format', u.dwarf_format(), 64 if E.fmt64 else 32)
    ctx.check_eq(label + '/structs', [u.structs.address_size, u.structs.dwarf_version, u.structs.little_endian], [E.addr, E.version, E.little])
    if tu:
        ctx.check_eq(label + '/signature', u['signature'], sig)
        ctx.check_eq(label + '/type_offset', u['type_offset'], toff)
    elif E.version >= 5:
        ctx.check_eq(label + '/unit_type', u['unit_type'], 'DW_UT_' + ut)
        if ut in ('skeleton', 'split_compile'):
            ctx.check_eq(label + '/dwo_id', u['dwo_id'], dwo)
        if ut in ('type', 'split_type'):
            ctx.check_eq(label + '/type_signature', u['type_signature'], sig)
            ctx.check_eq(label + '/type_offset', u['type_offset'], toff)


# ------------------------------------------------------------------ H4.2 / H4.3 forms
def _side_tables(ctx, E):
    """small side tables with symbolic content; returns (sections dict, base attribute values, resolvers)"""
    offsz = E.offsz
    nstr = 3
    str_sel = [ctx.int_range('stroff%d' % i, 0, len(STR_STARTS) - 1) for i in range(nstr)]
    str_offs = [ctx.select(STR_STARTS, s) for s in str_sel]
    hdr = (([0xff] * 4 + enc.enc_int(4 + nstr * offsz, 8, E.little)) if E.fmt64 else enc.enc_int(4 + nstr * offsz, 4, E.little)) + enc.enc_int(5, 2, E.little) + [0, 0]
    sob = len(hdr)
    str_offsets = hdr + sum([enc.enc_int(o, offsz, E.little) for o in str_offs], [])
    naddr = 3
    addrs = [ctx.uint('addr%d' % i, 8 * E.addr) for i in range(naddr)]
    ahdr = (([0xff] * 4 + enc.enc_int(4 + naddr * E.addr, 8, E.little)) if E.fmt64 else enc.enc_int(4 + naddr * E.addr, 4, E.little)) + enc.enc_int(5, 2, E.little) + [E.addr, 0]
    ab = len(ahdr)
    debug_addr = ahdr + sum([enc.enc_int(a, E.addr, E.little) for a in addrs], [])
    nlist = 3
    ll = [ctx.uint('lloff%d' % i, 8 * offsz) for i in range(nlist)]
    rl = [ctx.uint('rloff%d' % i, 8 * offsz) for i in range(nlist)]

    def lists(offs):
        body = enc.enc_int(5, 2, E.little) + [E.addr, 0] + enc.enc_int(nlist, 4, E.little)
        tab = sum([enc.enc_int(o, offsz, E.little) for o in offs], [])
        n = len(body) + len(tab)
        pre = ([0xff] * 4 + enc.enc_int(n, 8, E.little)) if E.fmt64 else enc.enc_int(n, 4, E.little)
        return pre + body + tab, len(pre) + len(body)
    loclists, llb = lists(ll)
    rnglists, rlb = lists(rl)
    secs = dict(debug_str=STRTAB, debug_line_str=LINESTR, debug_str_offsets=str_offsets, debug_addr=debug_addr, debug_loclists=loclists, debug_rnglists=rnglists)
    bases = dict(str_offsets_base=sob, addr_base=ab, loclists_base=llb, rnglists_base=rlb)
    res = dict(str_sel=str_sel, addrs=addrs, ll=ll, rl=rl, llb=llb, rlb=rlb)
    return secs, bases, res


def _index_value(ctx, E, code, nm, count):
    """index-valued form with the index symbolic over 0..count-1"""
    name, kind = F.FORMS[code]
    i = ctx.int_range(nm, 0, count - 1)
    if kind == 'uleb':
        return enc.uleb_enc(i, 2), i
    sz = int(kind[1])
    return enc.enc_int(i, sz, E.little), i


def _expected_value(ctx, E, fname, raw, res):
    """resolved value per 7.5.4-7.5.6 and 7.26-7.29"""
    if fname == 'DW_FORM_strp':
        return ('str', raw, STRTAB)
    if fname == 'DW_FORM_line_strp':
        return ('str', raw, LINESTR)
    if fname == 'DW_FORM_flag':
        return ('val', raw != 0)
    if fname == 'DW_FORM_flag_present':
        return ('val', True)
    if fname in F.STRX:
        return ('strsel', ctx.select(res['str_sel'], raw))
    if fname in F.ADDRX:
        return ('val', ctx.select(res['addrs'], raw))
    if fname == 'DW_FORM_loclistx':
        return ('val', res['llb'] + ctx.select(res['ll'], raw))
    if fname == 'DW_FORM_rnglistx':
        return ('val', res['rlb'] + ctx.select(res['rl'], raw))
    return ('val', raw)


def _check_value(ctx, label, got, want):
    k = want[0]
    if k == 'val':
        ctx.check_eq(label, got, want[1])
    elif k == 'str':
        _, off, tab = want
        o = ctx.concretize(off)
        ctx.check_eq(label, got, _cstr(tab, o))
    elif k == 'strsel':
        sel = ctx.concretize(want[1])
        ctx.check_eq(label, got, _cstr(STRTAB, STR_STARTS[sel]))


def h_forms(ctx):
    cfg = ctx.cfg
    e = cfg['env']
    E = _env(e)
    code = cfg['form']
    fname, kind = F.FORMS[code]
    via = cfg.get('via', 'direct')          # direct | indirect | indirect2 | top
    secs, bases, res = _side_tables(ctx, E)
    base_form = 0x17 if E.version >= 4 else 0x06
    top_attrs = [(AT['str_offsets_base'], base_form), (AT['addr_base'], base_form), (AT['loclists_base'], base_form), (AT['rnglists_base'], base_form)]
    base_vals = [bases['str_offsets_base'], bases['addr_base'], bases['loclists_base'], bases['rnglists_base']]
    # ---- value under test
    if fname in ('DW_FORM_strp',):
        sel = ctx.int_range('v.sel', 0, len(STR_STARTS) - 1)
        raw = ctx.select(STR_STARTS, sel)
        vbytes = enc.enc_int(raw, E.offsz, E.little)
    elif fname == 'DW_FORM_line_strp':
        sel = ctx.int_range('v.sel', 0, 2)
        raw = ctx.select([0, 3, 1], sel)
        vbytes = enc.enc_int(raw, E.offsz, E.little)
    elif fname in F.STRX or fname in F.ADDRX or fname in ('DW_FORM_loclistx', 'DW_FORM_rnglistx'):
        vbytes, raw = _index_value(ctx, E, code, 'v', 3)
    elif kind == 'implicit':
        n = cfg['shape'].get('leb', 1)
        raw = ctx.sint('v', 7 * n)
        vbytes = []
    else:
        vbytes, raw = F.gen_value(ctx, E, code, 'v', cfg.get('shape'))
    # ---- abbreviations
    spec = (AT['const_value'], code, 0)
    if via == 'indirect':
        spec = (AT['const_value'], 0x16, 0)
        vbytes = _uleb(code) + vbytes
    elif via == 'indirect2':
        spec = (AT['const_value'], 0x16, 0)
        vbytes = _uleb(0x16) + _uleb(code) + vbytes
    if via == 'top':
        # the attribute sits in the top DIE BEFORE the base attributes it depends on
        decls = [(1, TAG_CU, False, [spec] + top_attrs)]
    else:
        decls = [(1, TAG_CU, True, top_attrs), (2, TAG_VAR, False, [spec])]
    ab = abbrev_table(decls)
    if kind == 'implicit':
        # splice the symbolic SLEB128 constant into the abbreviation bytes
        n = cfg['shape'].get('leb', 1)
        marker = _uleb(AT['const_value']) + _uleb(0x21)
        for i in range(len(ab)):
            if ab[i:i + len(marker)] == marker:
                ab = ab[:i + len(marker)] + enc.sleb_enc(raw, n) + ab[i + len(marker) + 1:]
                break
    base_bytes = sum([enc.enc_int(v, E.offsz if base_form == 0x17 else 4, E.little) for v in base_vals], [])
    trail = ctx.byte('trailing')
    if via == 'top':
        body = [1] + vbytes + base_bytes
        attr_off_in_body = 1
        die_off_in_body = 0
        die_size = len(body)
        body += [trail] if False else []
    else:
        top = [1] + base_bytes
        child = [2] + vbytes
        body = top + child + [0]
        die_off_in_body = len(top)
        attr_off_in_body = len(top) + 1
        die_size = len(child)
    h, hsz = unit_header(E.version, E.fmt64, E.little, E.addr, 0, 'compile', body_len=len(body))
    info = h + body + [trail]
    di, streams = mk_dwarfinfo(ctx, E.little, E.addr, debug_info=info, debug_abbrev=ab, **secs)
    cu = next(di.iter_CUs())
    topdie = cu.get_top_DIE()
    if via == 'top':
        die = topdie
    else:
        kids = ctx.walk(lambda: topdie.iter_children())
        ctx.check_eq('forms/children', len(kids), 1)
        if len(kids) != 1:
            return
        die = kids[0]
    ctx.outcome('ok')
    label = 'form/%s/%s' % (fname, via)
    ctx.check_eq(label + '/die.offset', die.offset, hsz + die_off_in_body)
    ctx.check_eq(label + '/die.size', die.size, die_size)
    ctx.check('form/attribute-present', 'DW_AT_const_value' in die.attributes)
    if 'DW_AT_const_value' not in die.attributes:
        return
    a = die.attributes['DW_AT_const_value']
    ctx.check_eq(label + '/final-form', a.form, fname)
    ctx.check_eq(label + '/raw_value', a.raw_value, raw)
    ctx.check_eq(label + '/offset', a.offset, hsz + attr_off_in_body)
    ctx.check_eq(label + '/indirection_length', a.indirection_length, {'indirect': 1, 'indirect2': 2}.get(via, 0))
    _check_value(ctx, label + '/value', a.value, _expected_value(ctx, E, fname, raw, res))
    ctx.check_eq('form/name', a.name, 'DW_AT_const_value')
    # exact tiling of the unit
    if via != 'top':
        ctx.check_eq('forms/tiling', [(d.offset, d.size) for d in cu.iter_DIEs()],
                     [(hsz, len(top)), (hsz + len(top), die_size), (hsz + len(top) + die_size, 1)])


# ------------------------------------------------------------------ H4.4 abbreviation tables
def h_abbrev(ctx):
    cfg = ctx.cfg
    AT_ = ctx.lib('dwarf.abbrevtable')
    S = ctx.lib('dwarf.structs')
    DE = ctx.lib('dwarf.enums')
    structs = S.DWARFStructs(little_endian=True, dwarf_format=32, address_size=8)
    decls = []
    data = [0xEE] * cfg.get('pad', 0)
    for i in range(cfg['ndecl']):
        code = [1, 0x81, 0x2345, 7][i]        # abbreviation codes index a dictionary: concrete, 1- and 2-byte encodings
        tag = ctx.uint('d%d.tag' % i, 14)
        ch = ctx.uint('d%d.children' % i, 1)
        attrs = []
        data += enc.uleb_enc(code, 2) + enc.uleb_enc(tag, 2) + [ch]
        for j in range(cfg['nattr']):
            an = ctx.int_range('d%d.a%d.name' % (i, j), 1, 0x3fff)
            fo = ctx.int_range('d%d.a%d.form' % (i, j), 1, 0x2c)
            ctx.assume(fo != 0x21)
            attrs.append((an, fo))
            data += enc.uleb_enc(an, 2) + enc.uleb_enc(fo, 1)
        data += [0, 0]
        decls.append((code, tag, ch, attrs))
    data += [0] + [0x99] * 3
    tab = AT_.AbbrevTable(structs, ctx.stream(data), cfg.get('pad', 0))
    ctx.outcome('ok')

    def enum_ok(label, got, raw, table):
        conds = []
        for cond, obj in ctx.alternatives(got):
            if isinstance(obj, str):
                acc = REG.values(obj) or ({table[obj]} if obj in table else set())
                conds.append(ctx.implies(cond, ctx.lor(*[raw == x for x in sorted(acc)])))
            else:
                conds.append(ctx.implies(cond, ctx.eq(obj, raw)))
        ctx.check(label, ctx.land(*conds))
    for code, tag, ch, attrs in decls:
        d = tab.get_abbrev(ctx.concretize(code))
        enum_ok('abbrev/tag/name-or-raw', d['tag'], tag, DE.ENUM_DW_TAG)
        ctx.check('abbrev/has_children', ctx.iff(d.has_children(), ch == 1))
        specs = list(d['attr_spec'])
        ctx.check_eq('abbrev/attr-count', len(specs), len(attrs))
        for s, (an, fo) in zip(specs, attrs):
            enum_ok('abbrev/attr/name-or-raw', s.name, an, DE.ENUM_DW_AT)
            enum_ok('abbrev/attr/form-name-or-raw', s.form, fo, DE.ENUM_DW_FORM)
    ctx.check_eq('abbrev/count', len(tab._abbrev_map), len(decls))


# ------------------------------------------------------------------ H4.5 trees
def _trees(n):
    """all forests of exactly n nodes as nested lists"""
    if n == 0:
        return [[]]
    out = []
    for k in range(n):                      # first tree has 1 + k nodes in its subtree, the rest n-1-k
        for sub in _trees(k):
            for rest in _trees(n - 1 - k):
                out.append([sub] + rest)
    return out


def _count(t):
    return sum(1 + _count(c) for c in t)


def _layout_tree(ctx, E, forest, sib, base_off, cu_off, nm, pad=0, empty_parents=False):
    """DIE bytes for a forest under the top DIE.  abbrev 2 = leaf(data1), 3 = parent(data1) [+ sibling attr per `sib`]
    -> (bytes, flat expected list of dict(off,size,code,children,null,depth,val), nesting)"""
    flat = []
    sibsz = {'none': 0, 'ref4': 4, 'ref_udata': 2, 'ref_addr': (E.addr if E.version == 2 else E.offsz)}[sib]

    # pad: extra bytes of the (then non-minimal) ULEB128 abbreviation codes, null entries included (0x80 0x00 is a null entry of size 2)
    def code(c):
        return enc.uleb_enc(c, 1 + pad)

    # empty_parents: every childless entry uses the abbreviation WITH the children flag and is followed directly by the null entry
    # that closes its (empty) child list - legal, and the terminator then has that entry as its parent
    def size_of(node):
        kids = node
        if not kids and empty_parents:
            return 2 + pad + sibsz + 1 + pad
        if not kids:
            return 2 + pad
        return 2 + pad + sibsz + sum(size_of(k) for k in kids) + 1 + pad

    def emit(nodes, off, depth, parent):
        out = []
        for i, node in enumerate(nodes):
            val = ctx.byte('%s.v%d' % (nm, len(flat)))
            me = dict(off=off, depth=depth, parent=parent, val=val, null=False)
            flat.append(me)
            if not node and empty_parents:
                total = size_of(node)
                nxt = off + total
                me.update(size=2 + pad + sibsz, code=3, children=True)
                b = code(3)
                if sib == 'ref4':
                    b += enc.enc_int(nxt - cu_off, 4, E.little)
                elif sib == 'ref_udata':
                    b += enc.uleb_enc(nxt - cu_off, 2)
                elif sib == 'ref_addr':
                    b += enc.enc_int(nxt, sibsz, E.little)
                b += [val]
                term = dict(off=off + len(b), size=1 + pad, code=0, children=None, null=True, depth=depth + 1, parent=me, val=None)
                flat.append(term)
                me['terminator'] = term
                out += b + code(0)
                off = nxt
            elif not node:
                me.update(size=2 + pad, code=2, children=False)
                out += code(2) + [val]
                off += 2 + pad
            else:
                total = size_of(node)
                nxt = off + total
                me.update(size=2 + pad + sibsz, code=3, children=True)
                b = code(3)
                if sib == 'ref4':
                    b += enc.enc_int(nxt - cu_off, 4, E.little)
                elif sib == 'ref_udata':
                    b += enc.uleb_enc(nxt - cu_off, 2)
                elif sib == 'ref_addr':
                    b += enc.enc_int(nxt, sibsz, E.little)
                b += [val]
                kb = emit(node, off + len(b), depth + 1, me)
                term = dict(off=off + len(b) + len(kb), size=1 + pad, code=0, children=None, null=True, depth=depth + 1, parent=me, val=None)
                flat.append(term)
                me['terminator'] = term
                out += b + kb + code(0)
                off = nxt
        return out
    data = emit(forest, base_off, 1, None)
    return data, flat


def h_tree(ctx):
    cfg = ctx.cfg
    e = cfg['env']
    E = _env(e)
    sib = cfg['sib']
    forest = cfg['forest']
    sibform = {'ref4': 0x13, 'ref_udata': 0x15, 'ref_addr': 0x10}.get(sib)
    parent_attrs = ([(AT['sibling'], sibform)] if sibform else []) + [(AT['const_value'], 0x0b)]
    ab = abbrev_table([(1, TAG_CU, bool(forest), []), (2, TAG_VAR, False, [(AT['const_value'], 0x0b)]), (3, TAG_NS, True, parent_attrs)])
    pre_units = cfg.get('pre', 0)
    tu = cfg.get('tu', False)          # the unit under test is a v4 type unit in .debug_types (its own unit class in the library)
    sec = []
    for _ in range(pre_units):
        h0, _hs = unit_header(4, False, E.little, 8, 0, body_len=1, tu=tu, signature=0x1111 if tu else 0, type_offset=0)
        sec += h0 + [0]
    cu_off = len(sec)
    hdr_probe, hsz = unit_header(E.version, E.fmt64, E.little, E.addr, 0, 'compile', body_len=0, tu=tu)
    top_off = cu_off + hsz
    pad = cfg.get('codepad', 0)
    body, flat = _layout_tree(ctx, E, forest, sib, top_off + 1 + pad, cu_off, 't', pad, cfg.get('empty_parents', False))
    full = enc.uleb_enc(1, 1 + pad) + body + (enc.uleb_enc(0, 1 + pad) if forest else [])
    h, _ = unit_header(E.version, E.fmt64, E.little, E.addr, 0, 'compile', body_len=len(full), tu=tu, signature=0x2222 if tu else 0, type_offset=hsz)
    sec += h + full
    # a following unit, so that the end of this one is not the end of the section
    h2, _ = unit_header(4, False, E.little, 8, 0, body_len=1, tu=tu, signature=0x3333 if tu else 0)
    sec += h2 + [0]
    def fresh():
        if tu:
            hI, _ = unit_header(4, False, E.little, 8, 0, body_len=1)
            di, _ = mk_dwarfinfo(ctx, E.little, E.addr, debug_info=hI + [0], debug_abbrev=ab, debug_types=sec)
            return ctx.walk(lambda: di.iter_TUs())[pre_units]
        di, _ = mk_dwarfinfo(ctx, E.little, E.addr, debug_info=sec, debug_abbrev=ab)
        return ctx.walk(lambda: di.iter_CUs())[pre_units]
    cu = fresh()
    mode = cfg.get('mode', 'iter')
    want = [dict(off=top_off, size=1 + pad, code=1, children=bool(forest), null=False, depth=0, parent=None, val=None)] + flat
    if forest:
        want.append(dict(off=top_off + 1 + pad + len(body), size=1 + pad, code=0, children=None, null=True, depth=1, parent=None, val=None))
    ctx.outcome('ok')
    if mode == 'random-first':
        # random access by offset before any iteration, last entry first
        for w in reversed(want):
            d = cu.get_DIE_from_refaddr(w['off'])
            ctx.check_eq('tree/random-access', [d.offset, d.size, d.abbrev_code, d.is_null()], [w['off'], w['size'], w['code'], w['null']])
    if mode == 'parent-first':
        # the parent of an entry fetched by offset on an untouched unit (found by searching down from the top entry), also for the
        # null entries: a terminator belongs to the entry whose child list it closes
        for w in want:
            d = fresh().get_DIE_from_refaddr(w['off'])
            p = d.get_parent()
            if w['depth'] == 0:
                ctx.check('tree/parent-first/top-none', p is None)
            else:
                wp = w['parent']['off'] if w['parent'] is not None else top_off
                ctx.check_eq('tree/%s/parent-first%s' % (sib, '/null' if w['null'] else ''), p.offset if p is not None else None, wp)
    if mode == 'children-first':
        # the top-level children listed first (sibling attributes let the walk step over whole subtrees, whose entries are then
        # NOT in the per-unit cache while the unit's last entry is), then the full iteration
        kids = ctx.drain(cu.get_top_DIE().iter_children())
        ctx.check_eq('tree/%s/children-first/top-children' % sib, [k.offset for k in kids], [w['off'] for w in want if w['depth'] == 1 and not w['null']])
    dies = ctx.walk(lambda: cu.iter_DIEs())
    ctx.check_eq('tree/%s/count' % sib, len(dies), len(want))
    if len(dies) != len(want):
        return
    for d, w in zip(dies, want):
        ctx.check_eq('tree/%s/entry' % sib, [d.offset, d.size, d.abbrev_code, d.is_null(), d.has_children],
                     [w['off'], w['size'], w['code'], w['null'], w['children']])
        if not w['null']:
            ctx.check_eq('tree/tag', d.tag, {1: 'DW_TAG_compile_unit', 2: 'DW_TAG_variable', 3: 'DW_TAG_namespace'}[w['code']])
        if w['val'] is not None:
            ctx.check_eq('tree/value', d.attributes['DW_AT_const_value'].value, w['val'])
    # sizes tile the unit exactly
    pos = top_off
    ok = True
    for d in dies:
        ok = ok and d.offset == pos
        pos += d.size
    ctx.check('tree/tiling', ok and pos == cu.cu_offset + cu.size)
    # children / parent relations equal the nesting
    bydict = {w['off']: w for w in want}
    for d, w in zip(dies, want):
        if w['null']:
            continue
        kids = [k.offset for k in d.iter_children()]
        wk = [x['off'] for x in want if not x['null'] and ((x['parent'] is w) or (w['depth'] == 0 and x['depth'] == 1 and x['parent'] is None and x is not w))]
        ctx.check_eq('tree/%s/children' % sib, kids, wk)
        p = d.get_parent()
        if w['depth'] == 0:
            ctx.check('tree/parent/top-none', p is None)
            ctx.check_eq('tree/siblings/top-none', [x.offset for x in d.iter_siblings()], [])
        else:
            wp = w['parent']['off'] if w['parent'] is not None else top_off
            ctx.check_eq('tree/%s/parent' % sib, p.offset if p is not None else None, wp)
            ws = [x['off'] for x in want if not x['null'] and x is not w and x['depth'] == w['depth'] and x['parent'] is w['parent']]
            ctx.check_eq('tree/%s/siblings' % sib, [x.offset for x in d.iter_siblings()], ws)


# ------------------------------------------------------------------ H4.6 references
def h_refs(ctx):
    cfg = ctx.cfg
    e = cfg['env']
    E = _env(e)
    form = cfg['form']
    fname, kind = F.FORMS[form]
    refsz = {'u1': 1, 'u2': 2, 'u4': 4, 'u8': 8}.get(kind)
    # unit A: top(children) + target leaf T1 + referrer R + target T2 + null ; unit B: top(children) + leaf T3 + null
    ab = abbrev_table([(1, TAG_CU, True, []), (2, TAG_VAR, False, [(AT['const_value'], 0x0b)]), (3, TAG_VAR, False, [(AT['type'], form)])])
    hA_probe, hszA = unit_header(E.version, E.fmt64, E.little, E.addr, 0, 'compile', body_len=0, tu=bool(cfg.get('tu')))
    v = [ctx.byte('val%d' % i) for i in range(3)]
    if kind == 'uleb':
        rsz = 2
    elif kind == 'ref_addr':
        rsz = E.addr if E.version == 2 else E.offsz
    else:
        rsz = refsz
    bodyA_len = 1 + 2 + (1 + rsz) + 2 + 1
    offA = 0
    t1 = offA + hszA + 1
    r = t1 + 2
    t2 = r + 1 + rsz
    hB_probe, hszB = unit_header(4, False, E.little, 8, 0, 'compile', body_len=0)
    offB = offA + hszA + bodyA_len
    t3 = offB + hszB + 1
    targets = [t1, t2] + ([t3] if fname == 'DW_FORM_ref_addr' else [])
    which = ctx.int_range('which', 0, len(targets) - 1)
    tgt = ctx.select(targets, which)
    if fname == 'DW_FORM_ref_addr':
        rb = enc.enc_int(tgt, rsz, E.little)
    elif kind == 'uleb':
        rb = enc.uleb_enc(tgt - offA, 2)
    else:
        rb = enc.enc_int(tgt - offA, rsz, E.little)
    if cfg.get('tu'):
        # the referring entry lives in a DWARF 4 type unit (.debug_types); .debug_info holds other entries at the same numeric
        # offsets - a unit-relative reference stays inside its unit and its section
        hA, _ = unit_header(4, E.fmt64, E.little, E.addr, 0, tu=True, body_len=bodyA_len, signature=0x77, type_offset=hszA + 1)
        types = hA + [1, 2, v[0], 3] + rb + [2, v[1], 0]
        hI, _ = unit_header(4, False, E.little, 8, 0, 'compile', body_len=1 + 2 * 24 + 1)
        info = hI + [1] + [2, 0xEE] * 24 + [0]
        di, _ = mk_dwarfinfo(ctx, E.little, E.addr, debug_info=info, debug_abbrev=ab, debug_types=types)
        if cfg.get('warm'):
            ctx.walk(lambda: di.iter_CUs())
        cuA = ctx.walk(lambda: di.iter_TUs())[0]
    else:
        hA, _ = unit_header(E.version, E.fmt64, E.little, E.addr, 0, 'compile', body_len=bodyA_len)
        hB, _ = unit_header(4, False, E.little, 8, 0, 'compile', body_len=4)
        sec = hA + [1, 2, v[0], 3] + rb + [2, v[1], 0] + hB + [1, 2, v[2], 0]
        di, _ = mk_dwarfinfo(ctx, E.little, E.addr, debug_info=sec, debug_abbrev=ab)
        cus = ctx.walk(lambda: di.iter_CUs()) if cfg.get('warm') else None
        cuA = di.get_CU_at(offA)
    R = cuA.get_DIE_from_refaddr(r)
    T = R.get_DIE_from_attribute('DW_AT_type')
    ctx.outcome('ok')
    k = ctx.concretize(which)
    ctx.check_eq('ref/%s/target-offset' % fname, T.offset, targets[k])
    ctx.check_eq('ref/%s/target-value' % fname, T.attributes['DW_AT_const_value'].value, v[k])
    ctx.check_eq('ref/%s/target-unit' % fname, T.cu.cu_offset, offB if k == 2 else offA)
    if cfg.get('tu'):
        ctx.check('ref/%s/target-stays-in-the-type-unit' % fname, T.cu is cuA)


def h_ref_sig8(ctx):
    cfg = ctx.cfg
    little = cfg['little']
    ab = abbrev_table([(1, TAG_CU, True, []), (2, TAG_VAR, False, [(AT['const_value'], 0x0b)]), (3, TAG_VAR, False, [(AT['type'], 0x20)])])
    sigs = list(cfg['sigs'])        # signatures key a dictionary in the library: concrete (incl. values with the top bit set)
    vals = [ctx.byte('val%d' % i) for i in range(2)]
    types = []
    fmts = cfg.get('fmt64', (False, False))        # the units of one section may mix the 32-bit and the 64-bit format, and address sizes
    addrs = cfg.get('addrs', (8, 8))
    for i in range(2):
        hp, hsz = unit_header(4, fmts[i], little, addrs[i], 0, tu=True, body_len=0)
        # type_offset designates the second DIE (the leaf) of the type unit, relative to the unit start
        h, _ = unit_header(4, fmts[i], little, addrs[i], 0, tu=True, body_len=4, signature=sigs[i], type_offset=hsz + 1)
        types += h + [1, 2, vals[i], 0]
    which = ctx.int_range('which', 0, 1)
    want_sig = ctx.select(sigs, which)
    hI, hszI = unit_header(4, False, little, 8, 0, 'compile', body_len=1 + 9 + 1)
    info = hI + [1, 3] + enc.enc_int(want_sig, 8, little) + [0]
    di, _ = mk_dwarfinfo(ctx, little, 8, debug_info=info, debug_abbrev=ab, debug_types=types)
    cu = next(di.iter_CUs())
    R = list(cu.get_top_DIE().iter_children())[0]
    T = R.get_DIE_from_attribute('DW_AT_type')
    ctx.outcome('ok')
    k = ctx.concretize(which)
    ctx.check_eq('ref_sig8/value', T.attributes['DW_AT_const_value'].value, vals[k])
    ctx.check_eq('ref_sig8/raw', R.attributes['DW_AT_type'].raw_value, want_sig)
    tus = ctx.walk(lambda: di.iter_TUs())
    ctx.check_eq('ref_sig8/tu-count', len(tus), 2)
    ctx.check_eq('ref_sig8/tu-signatures', [t['signature'] for t in tus], sigs)
    # what a unit hands to everything decoded on its behalf (expressions, line programs, forms): its own format and address size
    ctx.check_eq('ref_sig8/tu-structs', [(t.structs.dwarf_format, t.structs.address_size, t.dwarf_format(), t['address_size']) for t in tus],
                 [(64 if fmts[i] else 32, addrs[i], 64 if fmts[i] else 32, addrs[i]) for i in range(2)])
    ctx.check_eq('ref_sig8/cu-structs', [(c.structs.dwarf_format, c.structs.address_size) for c in ctx.walk(lambda: di.iter_CUs())], [(32, 8)])


# ------------------------------------------------------------------ instances
# ------------------------------------------------------------------ H4.7 units of different parameters sharing one abbreviation table
def h_shared_abbrev(ctx):
    """several units with DIFFERENT address size / DWARF format (objects of different code models linked together) that use the SAME
    abbreviation table and codes: every entry is decoded with the parameters of its own unit header, in whatever order the units are read"""
    cfg = ctx.cfg
    little, order = cfg['little'], cfg['order']
    params = cfg['units']            # [(version, addr, fmt64)]
    ab = abbrev_table([(1, TAG_CU, True, [(0x11, 0x01), (0x10, 0x17), (AT['const_value'], 0x0b)]),       # low_pc addr, stmt_list sec_offset, data1
                       (2, TAG_VAR, False, [(AT['type'], 0x10), (AT['const_value'], 0x0b)])])              # type ref_addr, data1
    sec = []
    want = []
    for u, (ver, addr, fmt64) in enumerate(params):
        offsz = 8 if fmt64 else 4
        refsz = addr if ver == 2 else offsz
        lo = ctx.uint('u%d.low_pc' % u, 8 * addr)
        sl = ctx.uint('u%d.stmt_list' % u, 8 * offsz)
        c0, c1 = ctx.byte('u%d.c0' % u), ctx.byte('u%d.c1' % u)
        ref = ctx.uint('u%d.ref' % u, 8 * refsz)
        top = [1] + enc.enc_int(lo, addr, little) + enc.enc_int(sl, offsz, little) + [c0]
        kid = [2] + enc.enc_int(ref, refsz, little) + [c1]
        body = top + kid + [0]
        h, hsz = unit_header(ver, fmt64, little, addr, 0, 'compile', body_len=len(body))
        o = len(sec) + hsz
        want.append([(o, len(top), [('DW_AT_low_pc', lo, o + 1), ('DW_AT_stmt_list', sl, o + 1 + addr), ('DW_AT_const_value', c0, o + 1 + addr + offsz)]),
                     (o + len(top), len(kid), [('DW_AT_type', ref, o + len(top) + 1), ('DW_AT_const_value', c1, o + len(top) + 1 + refsz)]),
                     (o + len(top) + len(kid), 1, [])])
        sec += h + body
    di, _ = mk_dwarfinfo(ctx, little, params[0][1], debug_info=sec, debug_abbrev=ab)
    units = list(di.iter_CUs())
    ctx.outcome('ok')
    ctx.check_eq('shared-abbrev/units', len(units), len(params))
    if len(units) != len(params):
        return
    seq = list(range(len(units)))
    if order == 'reverse':
        seq.reverse()
    elif order == 'middle-first':
        seq = seq[1:] + seq[:1]
    got = {}
    for i in seq:
        got[i] = [(d.offset, d.size, [(n, a.raw_value, a.offset) for n, a in d.attributes.items()]) for d in ctx.drain(units[i].iter_DIEs())]
    for i in range(len(units)):
        ctx.check_eq('shared-abbrev/%s/unit%d/entries' % (order, i), len(got[i]), 3)
        for g, w in zip(got[i], want[i]):
            ctx.check_eq('shared-abbrev/%s/entry/offset-size' % order, [g[0], g[1]], [w[0], w[1]])
            ctx.check_eq('shared-abbrev/%s/entry/attributes' % order, g[2], w[2])


def _unit_instances(tier):
    out = []
    envs = ENVS_T if tier == 'thorough' else ENVS_Q + [dict(version=3, fmt64=True, little=True, addr=8)]
    for e in envs:
        if e['version'] >= 5:
            for ut in ('compile', 'partial', 'skeleton', 'split_compile', 'type', 'split_type'):
                out.append(dict(env=e, unit_type=ut, pad_units=1 if ut == 'type' else 0))
        else:
            out.append(dict(env=e, pad_units=0))
            out.append(dict(env=e, pad_units=2))
        if e['version'] == 4:
            out.append(dict(env=e, tu=True, pad_units=0))
    return out


def _form_instances(tier):
    out = []
    envs = ENVS_Q if tier == 'quick' else [ENVS_T[i] for i in (0, 5, 10, 15, 17, 22, 27, 28, 3, 12)]
    lebs = (1, 2) if tier == 'quick' else (1, 2, 3)
    for e in envs:
        for code, (fname, kind) in sorted(F.FORMS.items()):
            if kind == 'indirect':
                continue
            shapes = [{}]
            if kind in ('uleb', 'sleb') and fname not in F.STRX + F.ADDRX + ('DW_FORM_loclistx', 'DW_FORM_rnglistx'):
                shapes = [dict(leb=n) for n in lebs]
            elif kind == 'implicit':
                shapes = [dict(leb=n) for n in (1, 2)]
            elif kind == 'cstring':
                shapes = [dict(len=n) for n in (0, 2)]
            elif kind.startswith('block'):
                shapes = [dict(len=n) for n in (0, 3)] + ([dict(len=1, lenleb=2)] if kind == 'blockv' else [])
            for sh in shapes:
                vias = ['direct']
                if kind != 'implicit':
                    vias.append('indirect')
                    if code in (0x0b, 0x0f, 0x08, 0x1a):
                        vias.append('indirect2')
                if fname in F.STRX + F.ADDRX + ('DW_FORM_loclistx', 'DW_FORM_rnglistx'):
                    vias.append('top')
                for via in vias:
                    out.append(dict(env=e, form=code, shape=sh, via=via))
    return out


def _tree_instances(tier):
    out = []
    maxn = 4 if tier == 'quick' else 5
    forests = []
    for n in range(0, maxn + 1):
        forests += _trees(n)
    for e, sibs in ((ENVS_Q[0], ('none', 'ref4', 'ref_udata')), (ENVS_Q[1], ('none', 'ref_addr')), (ENVS_Q[2], ('ref_addr', 'ref4'))):
        for forest in forests:
            for sib in sibs:
                if sib != 'none' and not any(f for f in forest):
                    continue
                for mode in ('iter', 'random-first', 'parent-first', 'children-first'):
                    if mode != 'iter' and _count(forest) not in (3, maxn):
                        continue
                    out.append(dict(env=e, forest=forest, sib=sib, mode=mode, pre=1 if sib == 'ref_addr' else 0))
    # entries flagged as having children that have none (an empty child list closed at once)
    for o in list(out):
        if _count(o['forest']) in (2, 3) and o['env'] is ENVS_Q[0] and o['mode'] in ('iter', 'parent-first', 'random-first'):
            out.append(dict(o, empty_parents=True))
    # non-minimal ULEB128 abbreviation codes (every code, null entries included, padded by one byte)
    for o in list(out):
        if o['mode'] == 'iter' and _count(o['forest']) in (2, 3, maxn) and o['env'] is ENVS_Q[0]:
            out.append(dict(o, codepad=1))
    # the same trees inside DWARF 4 type units (.debug_types), whose navigation code is separate from the compile units'
    tu_envs = [dict(version=4, fmt64=False, addr=8, little=True), dict(version=4, fmt64=True, addr=4, little=False)]
    for e, sibs in ((tu_envs[0], ('none', 'ref4', 'ref_addr')), (tu_envs[1], ('ref_udata', 'ref_addr', 'none'))):
        for forest in forests:
            if tier == 'quick' and _count(forest) not in (0, 2, 3, maxn):
                continue
            for sib in sibs:
                if sib != 'none' and not any(f for f in forest):
                    continue
                for mode in ('iter', 'random-first', 'parent-first', 'children-first'):
                    if mode != 'iter' and _count(forest) not in (3, maxn):
                        continue
                    out.append(dict(env=e, forest=forest, sib=sib, mode=mode, pre=1 if sib != 'ref4' else 0, tu=True))
                    if mode == 'iter' and _count(forest) in (3, maxn) and e is tu_envs[0]:
                        out.append(dict(out[-1], codepad=1))
    return out


TIER_PARAMS = {'quick': {'conc_cap': 300}, 'thorough': {'conc_cap': 600, 'deadline_s': 3000}}

def _h_leb(ctx):
    from harness import c16          # imported late: c16 itself shares harnesses of modules that import this one
    return c16.h_leb(ctx)


HARNESSES = [
    H('h4_2_leb128_values', _h_leb, lambda tier: [dict(n=n, signed=s) for s in (False, True) for n in (1, 2, 5, 9, 10, 11, 12)], expect=('ok', 'parse_error'),
      desc='DW_FORM_udata / sdata / ref_udata / implicit_const values and abbreviation codes of any length: the LEB128 decoders on every byte string of 1..12 bytes (harness shared with C16)'),
    H('h4_1_unit_header', h_unit_header, _unit_instances, expect=('ok',),
      desc='unit headers: versions 2-5 x DWARF32/64 x address size x byte order x every v5 unit kind, and v4 type units; abbrev offset, dwo id, signature, type offset symbolic; '
           'offsets, sizes, format detection, structs parameters'),
    H('h4_2_forms', h_forms, _form_instances, expect=('ok',),
      desc='every attribute form (direct, through DW_FORM_indirect once/twice, implicit_const, and index forms placed in the top DIE BEFORE their base attribute): '
           'final form, raw value, resolved value (strp, line_strp, strx*, addrx*, loclistx, rnglistx through small side tables with symbolic contents and symbolic index), '
           'attribute offset, entry size, exact tiling',
      bounds={'quick': '3 environments, LEB128 1-2 bytes, blocks 0/3 bytes', 'thorough': '10 environments, LEB128 1-3 bytes'}),
    H('h4_4_abbrev', h_abbrev, lambda tier: [dict(ndecl=n, nattr=a, pad=p) for (n, a, p) in ((0, 0, 0), (1, 0, 0), (1, 2, 3), (2, 1, 0))], expect=('ok',),
      desc='abbreviation tables with symbolic codes, tags, child flags, attribute names and forms (2-byte ULEB128): names from the registry or raw numbers, termination at code 0, table at an offset'),
    H('h4_5_tree', h_tree, _tree_instances, expect=('ok',),
      desc='every tree shape up to N entries under the unit entry, with and without DW_AT_sibling in ref4 / ref_udata / ref_addr form, after 0/1 preceding units: '
           'iter_DIEs sequence (offset, size, code, tag, child flag, nulls), exact tiling up to the declared unit length, iter_children / get_parent equal the nesting, random access before iteration'),
    H('h4_7_shared_abbrev_table', h_shared_abbrev, lambda tier: [dict(little=l, units=u, order=o) for l in (True, False) for o in ('forward', 'reverse', 'middle-first')
                                                             for u in ([(4, 4, False), (4, 8, False), (4, 8, True)], [(5, 8, True), (3, 4, False), (2, 8, False)])], expect=('ok',),
      desc='units of different address size / DWARF format / version sharing ONE abbreviation table and the same codes (DW_FORM_addr, sec_offset, ref_addr): every entry is decoded with the parameters of its own unit, in any order of reading'),
    H('h4_6_refs', h_refs, lambda tier: [dict(env=e, form=f, warm=w) for e in ENVS_Q for f in (0x11, 0x12, 0x13, 0x14, 0x15, 0x10) for w in (False, True)] +
                                        [dict(env=e, form=f, warm=w, tu=True) for e in (dict(version=4, fmt64=False, little=True, addr=8), dict(version=4, fmt64=True, little=False, addr=4))
                                         for f in (0x11, 0x12, 0x13, 0x14, 0x15) for w in (False, True)], expect=('ok',),
      desc='get_DIE_from_attribute for ref1/2/4/8/udata (unit relative) and ref_addr (section relative, across two units, DWARF 2 width) with a symbolic target'),
    H('h4_6_ref_unit_lookup', C13.h_cu_lookup, lambda tier: [c for c in C13._lookup_instances(tier) if c['op'] == 'containing' and len(c['warm']) in (0, 2)], expect=('ok', 'outside'),
      desc='the unit that a section-relative reference (DW_FORM_ref_addr, an offset taken from another table) falls in, for every prior state of the unit cache - '
           'sparse ones included: units 0 and 2 known, the reference points into unit 1 (harness shared with C13)'),
    H('h4_6_ref_sig8', h_ref_sig8, lambda tier: [dict(little=l, sigs=s) for l in (True, False) for s in ([1, 2], [0xfedcba9876543210, 0x8000000000000000], [0, 0xffffffffffffffff])] +
                                                  [dict(little=l, sigs=[5, 6], fmt64=f, addrs=a) for l in (True, False) for f, a in (((True, False), (8, 8)), ((False, True), (4, 8)), ((True, True), (8, 4)))], expect=('ok',),
      desc='DW_FORM_ref_sig8 through two v4 type units with signatures at the 64-bit boundaries and a symbolic choice of target'),
]

HARNESSES_BY_NAME = {h.name: h for h in HARNESSES}
