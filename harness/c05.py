"""C05 - line-number programs execute to the rows the DWARF state machine prescribes."""
from symx.api import H
from spec import enc
from harness import c04 as C4
from spec import lineprog as LPR
from harness.dwarfkit import mk_dwarfinfo

PROPERTY = 'C05'
ASSUMPTIONS = [
    'the state machine is a fold over instructions: base case (initial registers) + one step from an ARBITRARY register state and ARBITRARY header parameters (h5_2_step) cover programs of any length',
    'addresses and lines are mathematical integers (the standard defines no wrap-around; the library does not wrap either)',
    'op_index < maximum_operations_per_instruction, line_range >= 1, maximum_operations_per_instruction >= 1, opcode_base >= 1 (well-formed header)',
    'extended opcodes carry a length consistent with their operands; unknown extended opcodes lie inside the program',
]
STUBS = ['SymStream (io.BytesIO)', 'SxPacker (struct.Struct)']
OUTSIDE = [
    'standard opcodes 13..opcode_base-1 that the library does not know (the standard says: skip their LEB128 operands using standard_opcode_lengths; the library rejects them)',
    'LEB128 operands longer than the instruction buffer of the step harness (quick 3 / thorough 5 bytes per operand)',
    'DWARF 5 directory/file entry forms other than string, line_strp, strp, udata, data1/2/4/8, data16, block',
    'DW_LNE_define_file in version 5 programs',
]

ENVS = [dict(little=True, addr=8), dict(little=False, addr=4)]


# ------------------------------------------------------------------ H5.2 inductive step
def _sym_header(ctx, C, version=4):
    return C.Container(
        version=version,
        default_is_stmt=ctx.uint('h.default_is_stmt', 8),
        opcode_base=ctx.int_range('h.opcode_base', 1, 255),
        line_base=ctx.sint('h.line_base', 8),
        line_range=ctx.int_range('h.line_range', 1, 255),
        minimum_instruction_length=ctx.uint('h.min_inst', 8),
        maximum_operations_per_instruction=ctx.int_range('h.max_ops', 1, 255),
        file_entry=[], include_directory=[])


def _sym_regs(ctx, hdr):
    pre = dict(address=ctx.uint('r.address', 64), op_index=ctx.uint('r.op_index', 8), file=ctx.uint('r.file', 32),
               line=ctx.uint('r.line', 32), column=ctx.uint('r.column', 32), is_stmt=ctx.uint('r.is_stmt', 1),
               basic_block=ctx.uint('r.basic_block', 1), end_sequence=False, prologue_end=ctx.uint('r.prologue_end', 1),
               epilogue_begin=ctx.uint('r.epilogue_begin', 1), isa=ctx.uint('r.isa', 32), discriminator=ctx.uint('r.discriminator', 32))
    ctx.assume(pre['op_index'] < hdr['maximum_operations_per_instruction'])
    return pre


def _hdr_dict(hdr):
    return dict(opcode_base=hdr['opcode_base'], line_base=hdr['line_base'], line_range=hdr['line_range'],
                minimum_instruction_length=hdr['minimum_instruction_length'],
                maximum_operations_per_instruction=hdr['maximum_operations_per_instruction'], default_is_stmt=hdr['default_is_stmt'])


def h_step(ctx):
    cfg = ctx.cfg
    little, addr, n, klass = cfg['little'], cfg['addr'], cfg['n'], cfg['klass']
    LP = ctx.lib('dwarf.lineprogram')
    S = ctx.lib('dwarf.structs')
    C = ctx.lib('construct')
    EXC = ctx.lib('common.exceptions')
    hdr = _sym_header(ctx, C)
    pre = _sym_regs(ctx, hdr)
    # arbitrary file table before the step: entries with symbolic fields (a define_file may repeat one of them field for field - it still
    # adds an entry, DWARF 6.2.5.3: file numbers are assigned in order of appearance)
    files0 = []
    for i in range(cfg.get('files', 0)):
        files0.append((ctx.mkbytes([ctx.int_range('f%d.name' % i, 1, 127)]), ctx.uint('f%d.dir' % i, 7), ctx.uint('f%d.mtime' % i, 7), ctx.uint('f%d.len' % i, 7)))
        hdr['file_entry'].append(C.Container(name=files0[-1][0], dir_index=files0[-1][1], mtime=files0[-1][2], length=files0[-1][3]))
    bs = ctx.bytes('i', n)
    op = bs[0]
    if klass == 'special':
        ctx.assume(op >= hdr['opcode_base'])
    elif klass == 'extended':
        ctx.assume(ctx.land(op == 0, hdr['opcode_base'] >= 1))
        if 'ext' in cfg:
            # 0, uleb length (1 byte, or 2 bytes incl. padded encodings), extended opcode
            if cfg.get('lenleb', 1) == 2:
                ctx.assume(ctx.land((bs[1] & 0x80) != 0, (bs[2] & 0x80) == 0))
                # the declared length stays inside the buffer (longer ones are ill-formed and excluded by the reference anyway)
                ctx.assume(((bs[1] & 0x7f) | (bs[2] << 7)) <= n - 3)
                opb = bs[3]
            else:
                ctx.assume((bs[1] & 0x80) == 0)
                opb = bs[2]
            ctx.assume(opb == cfg['ext'] if cfg['ext'] is not None else opb > 4)
    else:
        ctx.assume(ctx.land(op >= 1, op < hdr['opcode_base'], op <= 12))
        if 'std' in cfg:
            ctx.assume(op == cfg['std'])
    # ---- reference
    st = dict(pre)
    rd = LPR.Reader(ctx, bs)
    rd.ext = None
    ref_trunc = False
    try:
        kind, row, newfile = _ref_step(ctx, st, _hdr_dict(hdr), rd, little, addr)
    except LPR.Truncated:
        ref_trunc = True
        kind = 'truncated'
    except LPR.IllFormed:
        kind = 'illformed'
    if kind == 'illformed':
        ctx.assume(False)
    # ---- library
    insts = []
    orig = LP.LineState

    class SeededState(orig):
        def __init__(self, default_is_stmt):
            orig.__init__(self, default_is_stmt)
            if not insts:
                for k, v in pre.items():
                    setattr(self, k, v)
            insts.append(self)
    LP.LineState = SeededState
    try:
        structs = S.DWARFStructs(little_endian=little, dwarf_format=32, address_size=addr, dwarf_version=4)
        stream = ctx.stream(bs)
        prog = LP.LineProgram(header=hdr, stream=stream, structs=structs, program_start_offset=0, program_end_offset=1)
        try:
            entries = prog.get_entries()
        except EXC.ELFParseError:
            ctx.outcome('truncated')
            ctx.check('truncated-only-when-instruction-exceeds-buffer', ref_trunc)
            return
    finally:
        LP.LineState = orig
    ctx.outcome(kind)
    ctx.check('%s/not-truncated' % kind, not ref_trunc)
    if ref_trunc:
        return
    rows = [e.state for e in entries if e.state is not None]
    ctx.check_eq('%s/rows' % kind, len(rows), 1 if row is not None else 0)
    if row is not None and len(rows) == 1:
        LPR.same_regs(ctx, rows[0], row, '%s/row' % kind, ctx.check)
    LPR.same_regs(ctx, insts[-1], st, '%s/post' % kind, ctx.check)
    ctx.check_eq('%s/consumed' % kind, stream.tell(), rd.pos)
    fe = hdr['file_entry']
    if kind == 'define_file':
        ctx.check_eq('define_file/appended', len(fe), len(files0) + 1)
        if len(fe) == len(files0) + 1:
            name, d, m, l = newfile
            ctx.check_eq('define_file/name', fe[-1]['name'], ctx.mkbytes(name))
            ctx.check_eq('define_file/fields', [fe[-1]['dir_index'], fe[-1]['mtime'], fe[-1]['length']], [d, m, l])
    else:
        ctx.check_eq('%s/file-table-unchanged' % kind, len(fe), len(files0))
    ctx.check_eq('%s/earlier-file-entries-unchanged' % kind, [(f['name'], f['dir_index'], f['mtime'], f['length']) for f in fe[:len(files0)]], files0)


def _ref_step(ctx, st, hdr, rd, little, addr):
    """spec step + well-formedness of extended opcodes (declared length consistent with the operands)"""
    start = rd.pos
    if ctx.fork(rd.cells[start] == 0) and start + 1 < len(rd.cells):
        # peek the declared length
        r2 = LPR.Reader(ctx, rd.cells, start + 1)
        ln = r2.uleb()
        body = r2.pos
        kind, row, newfile = LPR.step(ctx, st, hdr, rd, little, addr)
        if kind == 'define_file' and not newfile[0]:
            return 'illformed', None, None           # a file entry needs a non-empty name
        if kind in ('end_sequence', 'set_address', 'define_file', 'set_discriminator'):
            if not ctx.fork(ln == rd.pos - body):
                return 'illformed', None, None
        return kind, row, newfile
    return LPR.step(ctx, st, hdr, rd, little, addr)


def h_base(ctx):
    """base case: the first row of a program starts from the standard's initial registers"""
    cfg = ctx.cfg
    LP = ctx.lib('dwarf.lineprogram')
    S = ctx.lib('dwarf.structs')
    C = ctx.lib('construct')
    hdr = _sym_header(ctx, C)
    structs = S.DWARFStructs(little_endian=cfg['little'], dwarf_format=32, address_size=cfg['addr'], dwarf_version=4)
    ctx.assume(hdr['opcode_base'] >= 2)
    prog = LP.LineProgram(header=hdr, stream=ctx.stream([1]), structs=structs, program_start_offset=0, program_end_offset=1)
    rows = [e.state for e in prog.get_entries() if e.state is not None]
    ctx.outcome('ok')
    ctx.check_eq('base/rows', len(rows), 1)
    if rows:
        LPR.same_regs(ctx, rows[0], LPR.initial(hdr['default_is_stmt']), 'base/row', ctx.check)
    # empty program: no rows
    prog2 = LP.LineProgram(header=hdr, stream=ctx.stream([]), structs=structs, program_start_offset=0, program_end_offset=0)
    ctx.check_eq('base/empty', prog2.get_entries(), [])


# ------------------------------------------------------------------ header generator (6.2.4)
def _ascii(ctx, nm, n):
    return [ctx.int_range('%s[%d]' % (nm, i), 1, 127) for i in range(n)]


FORMS = {'string': 0x08, 'line_strp': 0x1f, 'strp': 0x0e, 'udata': 0x0f, 'data1': 0x0b, 'data2': 0x05, 'data4': 0x06, 'data8': 0x07,
         'data16': 0x1e, 'block': 0x09, 'strp_sup': 0x1d, 'GNU_strp_alt': 0x1f21}
LNCT = {'path': 1, 'directory_index': 2, 'timestamp': 3, 'size': 4, 'MD5': 5}
LNCT_NAME = {1: 'DW_LNCT_path', 2: 'DW_LNCT_directory_index', 3: 'DW_LNCT_timestamp', 4: 'DW_LNCT_size', 5: 'DW_LNCT_MD5'}


def _gen_v5_value(ctx, nm, form, little, off_size, strtabs):
    """-> (bytes, expected value after the library's string resolution)"""
    if form == 'string':
        s = _ascii(ctx, nm, 2)
        return s + [0], ctx.mkbytes(s)
    if form in ('line_strp', 'strp', 'strp_sup', 'GNU_strp_alt'):
        tab = strtabs['sup' if form in ('strp_sup', 'GNU_strp_alt') else form]
        # offset symbolic over the starts of the strings in the table
        starts = [i for i in range(len(tab)) if i == 0 or tab[i - 1] == 0][:-1] if tab[-1] == 0 else [0]
        k = ctx.int_range(nm + '.which', 0, len(starts) - 1)
        off = ctx.select(starts, k)
        strs = []
        for s0 in starts:
            e = s0
            while tab[e] != 0:
                e += 1
            strs.append(bytes(tab[s0:e]))
        return enc.enc_int(off, off_size, little), ('strsel', k, strs)
    if form == 'udata':
        v = ctx.uint(nm, 14)
        return enc.uleb_enc(v, 2), v
    if form in ('data1', 'data2', 'data4', 'data8'):
        size = int(form[4:])
        v = ctx.uint(nm, 8 * size)
        return enc.enc_int(v, size, little), v
    if form == 'data16':
        cells = ctx.bytes(nm, 16)
        return cells, list(cells)
    if form == 'block':
        cells = ctx.bytes(nm, 2)
        return [2] + cells, list(cells)
    raise ValueError(form)


def gen_header(ctx, ver, fmt64, little, addr, shape, nm='h', strtabs=None):
    """-> (header bytes without unit_length/version prefix handling done here, expected dict, program_offset_within_unit)
    Returns full bytes of [unit_length .. end of header] with unit_length/header_length left to be patched by the caller."""
    off_size = 8 if fmt64 else 4
    want = {}
    body = []       # bytes after header_length field
    want['minimum_instruction_length'] = ctx.uint(nm + '.min_inst', 8)
    body += [want['minimum_instruction_length']]
    if ver >= 4:
        want['maximum_operations_per_instruction'] = ctx.uint(nm + '.max_ops', 8)
        body += [want['maximum_operations_per_instruction']]
    else:
        want['maximum_operations_per_instruction'] = 1
    want['default_is_stmt'] = ctx.uint(nm + '.default_is_stmt', 8)
    want['line_base'] = ctx.sint(nm + '.line_base', 8)
    want['line_range'] = ctx.uint(nm + '.line_range', 8)
    ob = shape['opcode_base']
    want['opcode_base'] = ob
    lens = ctx.bytes(nm + '.stdlen', max(ob - 1, 0))
    want['standard_opcode_lengths'] = list(lens)
    body += [want['default_is_stmt'], want['line_base'] & 0xff, want['line_range'], ob] + lens
    if ver < 5:
        dirs = []
        for i, ln in enumerate(shape.get('dirs', [])):
            s = _ascii(ctx, '%s.dir%d' % (nm, i), ln)
            dirs.append(s)
            body += s + [0]
        body += [0]
        files = []
        for i, ln in enumerate(shape.get('files', [])):
            s = _ascii(ctx, '%s.file%d' % (nm, i), ln)
            d, m, l = ctx.uint('%s.f%d.dir' % (nm, i), 7), ctx.uint('%s.f%d.mtime' % (nm, i), 14), ctx.uint('%s.f%d.len' % (nm, i), 21)
            files.append((s, d, m, l))
            body += s + [0] + enc.uleb_enc(d, 1) + enc.uleb_enc(m, 2) + enc.uleb_enc(l, 3)
        body += [0]
        want['include_directory'] = [ctx.mkbytes(s) for s in dirs]
        want['file_entry'] = [(ctx.mkbytes(s), d, m, l) for s, d, m, l in files]
    else:
        for which, fmt_key, cnt_key in (('directories', 'dir_format', 'ndirs'), ('file_names', 'file_format', 'nfiles')):
            fmt = shape.get(fmt_key, [])
            body += [len(fmt)]
            for ct, form in fmt:
                body += enc.uleb_enc(LNCT[ct], shape.get('ctleb', 1)) + enc.uleb_enc(FORMS[form], 1 if FORMS[form] < 0x80 else 2)
            cnt = shape.get(cnt_key, 0)
            body += enc.uleb_enc(cnt, shape.get('cntleb', 1))       # the counts are ULEB128: a padded encoding is as valid as the minimal one
            ents = []
            for i in range(cnt):
                e = {}
                for j, (ct, form) in enumerate(fmt):
                    b, v = _gen_v5_value(ctx, '%s.%s%d.%d' % (nm, which, i, j), form, little, off_size, strtabs)
                    body += b
                    e[LNCT_NAME[LNCT[ct]]] = v
                ents.append(e)
            want[which] = ents
            want[fmt_key] = [(LNCT_NAME[LNCT[ct]], 'DW_FORM_' + form) for ct, form in fmt]
    body += [0xA5] * shape.get('slack', 0)      # vendor padding covered by header_length
    pre = enc.enc_int(ver, 2, little)
    if ver >= 5:
        pre += [addr, 0]
        want['address_size'] = addr
        want['segment_selector_size'] = 0
    want['version'] = ver
    want['header_length'] = len(body)
    hl = enc.enc_int(len(body), off_size, little)
    return pre + hl + body, want


def wrap_unit(unit_body, fmt64, little):
    n = len(unit_body)
    if fmt64:
        return [0xff] * 4 + enc.enc_int(n, 8, little) + unit_body
    return enc.enc_int(n, 4, little) + unit_body


def _check_header(ctx, h, want, ver, label='hdr'):
    for k in ('version', 'header_length', 'minimum_instruction_length', 'maximum_operations_per_instruction', 'default_is_stmt',
              'line_base', 'line_range', 'opcode_base'):
        ctx.check_eq('%s/%s' % (label, k), h[k], want[k])
    ctx.check_eq('%s/standard_opcode_lengths' % label, list(h['standard_opcode_lengths']), want['standard_opcode_lengths'])
    if ver < 5:
        ctx.check_eq('%s/include_directory' % label, list(h['include_directory']), want['include_directory'])
        ctx.check_eq('%s/file_entry' % label, [(f['name'], f['dir_index'], f['mtime'], f['length']) for f in h['file_entry']], want['file_entry'])
    else:
        ctx.check_eq('%s/address_size' % label, h['address_size'], want['address_size'])
        ctx.check_eq('%s/segment_selector_size' % label, h['segment_selector_size'], want['segment_selector_size'])
        for which, fmt_key, legacy in (('directories', 'dir_format', 'include_directory'), ('file_names', 'file_format', 'file_entry')):
            got_fmt = [(f['content_type'], f['form']) for f in h[{'dir_format': 'directory_entry_format', 'file_format': 'file_name_entry_format'}[fmt_key]]]
            ctx.check_eq('%s/%s/format' % (label, which), got_fmt, want[fmt_key])
            ents = h[which]
            ctx.check_eq('%s/%s/count' % (label, which), len(ents), len(want[which]))
            if len(ents) != len(want[which]):
                continue
            for e, w in zip(ents, want[which]):
                for key, v in w.items():
                    if isinstance(v, tuple) and v and v[0] == 'strsel':
                        _, k, strs = v
                        ctx.check('%s/%s/%s/strp' % (label, which, key), ctx.lor(*[ctx.land(k == i, ctx.eq(e[key], s)) for i, s in enumerate(strs)]))
                    else:
                        ctx.check_eq('%s/%s/%s' % (label, which, key), e[key], v)
            # legacy-compatible views
            if want[which]:
                if which == 'directories' and any('DW_LNCT_path' in w for w in want[which]):
                    ctx.check_eq('%s/legacy/include_directory/count' % label, len(h['include_directory']), len(want[which]))
                if which == 'file_names':
                    ctx.check_eq('%s/legacy/file_entry/count' % label, len(h['file_entry']), len(want[which]))
                    for fe, e in zip(h['file_entry'], ents):
                        ctx.check_eq('%s/legacy/file_entry' % label, [fe['name'], fe['dir_index'], fe['mtime'], fe['length']],
                                     [e.get('DW_LNCT_path'), e.get('DW_LNCT_directory_index'), e.get('DW_LNCT_timestamp'), e.get('DW_LNCT_size')])


STRTAB = [ord(c) for c in 'ab\0cde\0\0x\0']


def h_header(ctx):
    cfg = ctx.cfg
    ver, fmt64, little, addr, shape = cfg['ver'], cfg['fmt64'], cfg['little'], cfg['addr'], cfg['shape']
    S = ctx.lib('dwarf.structs')
    # three string tables with DIFFERENT strings at the same offsets: .debug_line_str, .debug_str and the .debug_str of a
    # supplementary file (a name resolved through the wrong table, or remembered per offset only, comes out wrong)
    strtabs = {'line_strp': STRTAB, 'strp': STRTAB[3:] + [0x71, 0], 'sup': [ord(c) for c in 'S\0Tu\0vwx\0yz\0']}
    hb, want = gen_header(ctx, ver, fmt64, little, addr, shape, strtabs=strtabs)
    prog = [0x01, 0x01]
    unit = wrap_unit(hb + prog, fmt64, little)
    pad = cfg.get('pad', 0)
    sec = [0xEE] * pad + unit + [0xEE] * 3
    di, streams = mk_dwarfinfo(ctx, little, addr, debug_line=sec, debug_line_str=strtabs['line_strp'], debug_str=strtabs['strp'])
    if any(f in ('strp_sup', 'GNU_strp_alt') for k in ('dir_format', 'file_format') for _, f in shape.get(k, [])):
        di.supplementary_dwarfinfo, _ = mk_dwarfinfo(ctx, little, addr, debug_str=strtabs['sup'])
    structs = S.DWARFStructs(little_endian=little, dwarf_format=64 if fmt64 else 32, address_size=addr, dwarf_version=ver)
    lp = di._parse_line_program_at_offset(pad, structs)
    ctx.outcome('ok')
    h = lp.header
    ctx.check_eq('hdr/unit_length', h['unit_length'], len(hb) + len(prog))
    _check_header(ctx, h, want, ver)
    ctx.check_eq('hdr/program_start%s' % ('/slack' if shape.get('slack') else ''), lp.program_start_offset, pad + len(unit) - len(prog))
    ctx.check_eq('hdr/program_end', lp.program_end_offset, pad + len(unit))
    # same object on a second request (cache), also after the stream moved
    streams['debug_line'].seek(1)
    ctx.check('hdr/cached', di._parse_line_program_at_offset(pad, structs) is lp)


# ------------------------------------------------------------------ H5.3 / H5.4 sequences through the real header
def _gen_instr(ctx, nm, spec, little, addr):
    k = spec[0]
    if k == 'special':
        return [ctx.uint(nm, 8)], 'special'
    if k == 'std':
        op = spec[1]
        if op in (2, 4, 5, 12):
            n = spec[2] if len(spec) > 2 else 1
            return [op] + enc.uleb_enc(ctx.uint(nm, 7 * n), n), 'std'
        if op == 3:
            n = spec[2] if len(spec) > 2 else 1
            return [op] + enc.sleb_enc(ctx.sint(nm, 7 * n), n), 'std'
        if op == 9:
            return [op] + enc.enc_int(ctx.uint(nm, 16), 2, little), 'std'
        return [op], 'std'
    if k == 'ext':
        ex = spec[1]
        if ex == 1:
            return [0, 1, 1], 'ext'
        if ex == 2:
            return [0, 1 + addr, 2] + enc.enc_int(ctx.uint(nm, 8 * addr), addr, little), 'ext'
        if ex == 3:
            s = _ascii(ctx, nm + '.fn', 2)
            body = s + [0] + enc.uleb_enc(ctx.uint(nm + '.d', 7), 1) + enc.uleb_enc(ctx.uint(nm + '.m', 7), 1) + enc.uleb_enc(ctx.uint(nm + '.l', 14), 2)
            return [0, 1 + len(body), 3] + body, 'ext'
        if ex == 4:
            return [0, 2, 4] + enc.uleb_enc(ctx.uint(nm, 7), 1), 'ext'
        # unknown extended opcode with a payload of spec[2] bytes; spec[3] = number of bytes of the (possibly padded) length
        pay = ctx.bytes(nm + '.pay', spec[2])
        lb = enc.uleb_enc(1 + len(pay), spec[3] if len(spec) > 3 else 1)
        return [0] + lb + [ex] + pay, 'ext'
    raise ValueError(spec)


def h_seq(ctx):
    cfg = ctx.cfg
    ver, fmt64, little, addr = cfg['ver'], cfg['fmt64'], cfg['little'], cfg['addr']
    S = ctx.lib('dwarf.structs')
    C = ctx.lib('construct')
    units = []
    sec = []
    for u, uspec in enumerate(cfg['units']):
        hb, want = gen_header(ctx, ver, fmt64, little, addr, uspec['shape'], nm='h%d' % u, strtabs={'line_strp': STRTAB, 'strp': STRTAB})
        for k, v in uspec.get('fix', {}).items():
            ctx.assume(want[k] == v)
        ctx.assume(ctx.land(want['line_range'] >= 1, want['maximum_operations_per_instruction'] >= 1))
        ops = uspec['opcode_base_ops']
        prog = []
        for i, ispec in enumerate(ops):
            b, kind = _gen_instr(ctx, 'u%d.i%d' % (u, i), ispec, little, addr)
            if kind == 'special':
                ctx.assume(b[0] >= want['opcode_base'])
            prog += b
        unit = wrap_unit(hb + prog, fmt64, little)
        units.append(dict(off=len(sec), want=want, prog=prog, size=len(unit), nprog=len(prog)))
        sec += unit
    sec += [0xEE] * 2
    di, streams = mk_dwarfinfo(ctx, little, addr, debug_line=sec, debug_line_str=STRTAB, debug_str=STRTAB)
    structs = S.DWARFStructs(little_endian=little, dwarf_format=64 if fmt64 else 32, address_size=addr, dwarf_version=ver)
    order = cfg.get('order', list(range(len(units))))
    ctx.outcome('ok')
    for u in order:
        info = units[u]
        lp = di._parse_line_program_at_offset(info['off'], structs)
        ctx.check_eq('seq/program_start', lp.program_start_offset, info['off'] + info['size'] - info['nprog'])
        ctx.check_eq('seq/program_end', lp.program_end_offset, info['off'] + info['size'])
        entries = lp.get_entries()
        rows = [e.state for e in entries if e.state is not None]
        # reference: fold the spec step over the program bytes
        hd = {k: info['want'][k] for k in ('opcode_base', 'line_base', 'line_range', 'minimum_instruction_length',
                                           'maximum_operations_per_instruction', 'default_is_stmt')}
        st = LPR.initial(hd['default_is_stmt'])
        rd = LPR.Reader(ctx, info['prog'])
        want_rows = []
        nfiles = 0
        while rd.pos < len(info['prog']):
            kind, row, newfile = LPR.step(ctx, st, hd, rd, little, addr)
            if row is not None:
                want_rows.append(row)
            if newfile is not None:
                nfiles += 1
        ctx.check_eq('seq/%s/rows' % cfg['label'], len(rows), len(want_rows))
        if len(rows) == len(want_rows):
            for i, (g, w) in enumerate(zip(rows, want_rows)):
                LPR.same_regs(ctx, g, w, 'seq/%s/row' % cfg['label'], ctx.check)
        if ver < 5:
            ctx.check_eq('seq/file-table', len(lp.header['file_entry']), len(info['want']['file_entry']) + nfiles)
        ctx.check('seq/memo', lp.get_entries() is entries)


def h_for_cu(ctx):
    """the program attached to a unit is the one DW_AT_stmt_list designates (two programs in the section)"""
    cfg = ctx.cfg
    little, addr, ver = cfg['little'], cfg['addr'], cfg['ver']
    lver = cfg.get('lver', ver)     # the version of a line table is independent of the version of the unit that refers to it (DWARF 5, 6.2.4)
    shape = dict(opcode_base=13, dirs=[], files=[1]) if lver < 5 else dict(opcode_base=13)
    secs = []
    offs = []
    wants = []
    for u in range(2):
        # the line programs of a unit use the unit's DWARF format
        hb, want = gen_header(ctx, lver, cfg.get('cu_fmt64', False), little, addr, shape, nm='h%d' % u, strtabs={'line_strp': STRTAB, 'strp': STRTAB})
        unit = wrap_unit(hb + [0x01] * (u + 1), cfg.get('cu_fmt64', False), little)
        offs.append(len(secs))
        wants.append(want)
        secs += unit
    which = ctx.int_range('which', 0, 1)
    stmt = ctx.select(offs, which)
    # minimal CU: header + one DIE (abbrev 1: DW_TAG_compile_unit, no children, DW_AT_stmt_list as data4/sec_offset)
    # class lineptr: DW_FORM_sec_offset from DWARF 4 on; before that DW_FORM_data4 in the 32-bit and DW_FORM_data8 in the 64-bit format
    fmt64 = cfg.get('cu_fmt64', False)
    osz = 8 if fmt64 else 4
    form = 0x17 if ver >= 4 else (0x07 if fmt64 else 0x06)
    abbrev = [1, 0x11, 0, 0x10, form, 0, 0, 0]
    die = [1] + enc.enc_int(stmt, osz, little)
    if ver >= 5:
        hdr = enc.enc_int(ver, 2, little) + [1, addr] + enc.enc_int(0, osz, little)
    else:
        hdr = enc.enc_int(ver, 2, little) + enc.enc_int(0, osz, little) + [addr]
    n = len(hdr) + len(die)
    info = (([0xff] * 4 + enc.enc_int(n, 8, little)) if fmt64 else enc.enc_int(n, 4, little)) + hdr + die
    di, streams = mk_dwarfinfo(ctx, little, addr, debug_info=info, debug_abbrev=abbrev, debug_line=secs, debug_line_str=STRTAB, debug_str=STRTAB)
    cu = next(di.iter_CUs())
    lp = di.line_program_for_CU(cu)
    ctx.outcome('ok')
    ctx.check('for_cu/not-none', lp is not None)
    k = ctx.concretize(which)
    ctx.check_eq('for_cu/start', lp.program_start_offset, (offs[1] if k == 0 else len(secs)) - (k + 1))
    ctx.check_eq('for_cu/rows', len([e for e in lp.get_entries() if e.state is not None]), k + 1)
    ctx.check_eq('for_cu/min_inst', lp.header['minimum_instruction_length'], wants[k]['minimum_instruction_length'])
    ctx.check('for_cu/cached', di.line_program_for_CU(cu) is lp)


# ------------------------------------------------------------------ instances
def _step_instances(tier):
    out = []
    nleb = 3 if tier == 'quick' else 5
    for e in ENVS:
        out.append(dict(e, n=2, klass='special'))
        for std in range(1, 13):
            n = {2: 1 + nleb, 3: 1 + nleb, 4: 1 + nleb, 5: 1 + nleb, 12: 1 + nleb, 9: 3}.get(std, 2)
            out.append(dict(e, n=n, klass='standard', std=std))
            if std in (2, 3, 9):      # truncated operand
                out.append(dict(e, n=2, klass='standard', std=std))
        out.append(dict(e, n=4, klass='extended', ext=1))
        out.append(dict(e, n=3 + e['addr'] + 1, klass='extended', ext=2))
        out.append(dict(e, n=3 + e['addr'] - 1, klass='extended', ext=2))
        out.append(dict(e, n=3 + (7 if tier == 'quick' else 9), klass='extended', ext=3))
        out.append(dict(e, n=3 + 5, klass='extended', ext=3, files=2))
        out.append(dict(e, n=3 + nleb, klass='extended', ext=4))
        out.append(dict(e, n=8, klass='extended', ext=None))
        out.append(dict(e, n=9, klass='extended', ext=None, lenleb=2))
        out.append(dict(e, n=6, klass='extended', ext=4, lenleb=2))
        out.append(dict(e, n=5, klass='extended', ext=1, lenleb=2))
    return out


def _header_instances(tier):
    out = []
    cfgs = [(True, 8, False), (False, 4, True)] if tier == 'quick' else [(l, a, f) for l in (True, False) for a in (4, 8) for f in (False, True)]
    for little, addr, fmt64 in cfgs:
        for ver in (2, 3, 4):
            for shape in (dict(opcode_base=13, dirs=[], files=[]), dict(opcode_base=13, dirs=[2], files=[1]), dict(opcode_base=10, dirs=[1, 3], files=[2, 1]),
                          dict(opcode_base=1, dirs=[], files=[1]), dict(opcode_base=16, dirs=[1], files=[]), dict(opcode_base=13, dirs=[1], files=[1], slack=3)):
                out.append(dict(ver=ver, fmt64=fmt64, little=little, addr=addr, shape=shape, pad=4 if ver == 3 else 0))
        v5 = [
            dict(opcode_base=13, dir_format=[], ndirs=0, file_format=[], nfiles=0),
            dict(opcode_base=13, dir_format=[('path', 'string')], ndirs=2, file_format=[('path', 'string'), ('directory_index', 'udata')], nfiles=2),
            dict(opcode_base=13, dir_format=[('path', 'line_strp')], ndirs=2, file_format=[('path', 'line_strp'), ('directory_index', 'data1'), ('MD5', 'data16')], nfiles=1),
            dict(opcode_base=10, dir_format=[('path', 'strp')], ndirs=1, file_format=[('path', 'strp'), ('directory_index', 'data2'), ('timestamp', 'udata'), ('size', 'data4')], nfiles=2),
            dict(opcode_base=13, dir_format=[('path', 'string')], ndirs=1, file_format=[('path', 'string'), ('size', 'data8'), ('timestamp', 'block')], nfiles=1),
            dict(opcode_base=13, dir_format=[('path', 'string')], ndirs=1, file_format=[('path', 'string')], nfiles=1, slack=2),
            # names through different string sections within one header, and through the supplementary file's string table
            dict(opcode_base=13, dir_format=[('path', 'line_strp')], ndirs=2, file_format=[('path', 'strp'), ('directory_index', 'udata')], nfiles=2),
            dict(opcode_base=13, dir_format=[('path', 'strp')], ndirs=1, file_format=[('path', 'line_strp')], nfiles=2),
            dict(opcode_base=13, dir_format=[('path', 'strp_sup')], ndirs=1, file_format=[('path', 'strp_sup'), ('directory_index', 'udata')], nfiles=2),
            dict(opcode_base=13, dir_format=[('path', 'line_strp')], ndirs=1, file_format=[('path', 'GNU_strp_alt')], nfiles=1),
            dict(opcode_base=13, dir_format=[('path', 'strp_sup')], ndirs=1, file_format=[('path', 'strp')], nfiles=1),
            # the same sequence of forms with different content types (neighbouring instances serve as each other's decoy: an
            # entry parser remembered per form sequence would mix the fields up)
            dict(opcode_base=13, dir_format=[('path', 'string')], ndirs=1, file_format=[('path', 'string'), ('directory_index', 'udata'), ('size', 'udata')], nfiles=2),
            dict(opcode_base=13, dir_format=[('path', 'string')], ndirs=1, file_format=[('path', 'string'), ('size', 'udata'), ('directory_index', 'udata')], nfiles=2),
            dict(opcode_base=13, dir_format=[('path', 'string')], ndirs=1, file_format=[('path', 'string'), ('timestamp', 'udata'), ('size', 'udata')], nfiles=1),
        ]
        v5 += [dict(opcode_base=13, dir_format=[('path', 'string')], ndirs=2, file_format=[('path', 'string'), ('directory_index', 'udata')], nfiles=1, cntleb=2),
               dict(opcode_base=13, dir_format=[('path', 'line_strp')], ndirs=1, file_format=[('path', 'line_strp'), ('directory_index', 'data1')], nfiles=2, cntleb=3, ctleb=2)]
        for shape in v5:
            out.append(dict(ver=5, fmt64=fmt64, little=little, addr=addr, shape=shape, pad=0))
    return out


def _seq_instances(tier):
    out = []
    sh = dict(opcode_base=13, dirs=[], files=[1])
    progs = {
        'copy-special-end': [['std', 1], ['special'], ['ext', 1]],
        'setaddr-adv-copy': [['ext', 2], ['std', 2, 2], ['std', 1]],
        'two-sequences': [['special'], ['ext', 1], ['special']],
        'flags': [['std', 7], ['std', 10], ['std', 11], ['std', 1], ['std', 1]],
        'negate-file-col': [['std', 6], ['std', 4], ['std', 5], ['special']],
        'const-fixed': [['std', 8], ['std', 9], ['std', 1]],
        'advline-isa-disc': [['std', 3, 2], ['std', 12], ['ext', 4], ['special'], ['special']],
        'unknown-ext': [['ext', 0x80, 3], ['special'], ['ext', 9, 0], ['std', 1]],
        'unknown-ext-long-length': [['ext', 0x81, 2, 2], ['special'], ['ext', 0x21, 0, 3], ['std', 1]],
        'define-file': [['ext', 3], ['std', 1]],
        'empty': [],
    }
    envs = [(True, 8, False, 4), (False, 4, True, 3)] if tier == 'quick' else [(True, 8, False, 4), (False, 4, True, 3), (True, 4, False, 2), (False, 8, True, 4)]
    for little, addr, fmt64, ver in envs:
        for label, ops in progs.items():
            fix = {} if label in ('copy-special-end', 'const-fixed', 'setaddr-adv-copy') else {'maximum_operations_per_instruction': 1}
            out.append(dict(ver=ver, fmt64=fmt64, little=little, addr=addr, label=label, units=[dict(shape=sh, opcode_base_ops=ops, fix=fix)]))
        out.append(dict(ver=ver, fmt64=fmt64, little=little, addr=addr, label='two-programs', order=[1, 0],
                        units=[dict(shape=sh, opcode_base_ops=progs['copy-special-end'], fix={'maximum_operations_per_instruction': 1}),
                               dict(shape=dict(opcode_base=10, dirs=[1], files=[]), opcode_base_ops=progs['flags'], fix={'maximum_operations_per_instruction': 1})]))
    # v5 program
    out.append(dict(ver=5, fmt64=False, little=True, addr=8, label='v5', units=[dict(
        shape=dict(opcode_base=13, dir_format=[('path', 'string')], ndirs=1, file_format=[('path', 'string')], nfiles=1),
        opcode_base_ops=progs['copy-special-end'], fix={})]))
    return out


TIER_PARAMS = {'quick': {'conc_cap': 300}, 'thorough': {'conc_cap': 600}}

HARNESSES = [
    H('h5_2_base', h_base, lambda tier: list(ENVS), expect=('ok',),
      desc='base case: first row = initial registers of 6.2.2 for arbitrary header parameters; empty program yields nothing'),
    H('h5_2_step', h_step, _step_instances, expect=('special', 'copy', 'advance_pc', 'end_sequence', 'set_address', 'define_file', 'ext_unknown', 'truncated'),
      desc='inductive step: from ARBITRARY registers (12 symbolic registers) and ARBITRARY header parameters (opcode_base, line_base, line_range, '
           'minimum_instruction_length, maximum_operations_per_instruction all symbolic) one instruction of symbolic bytes is run by the real '
           'decode loop; emitted row, post-state, consumption and file table equal the DWARF 5 6.2.5 reference step',
      bounds={'quick': 'LEB128 operands up to 3 bytes', 'thorough': 'LEB128 operands up to 5 bytes'}),
    H('h5_1_header', h_header, _header_instances, decoy='all', expect=('ok',),
      desc='line program header v2-v5 (DWARF32/64, both byte orders): scalar fields symbolic, opcode_base in {1,10,13,16}, v2-4 directory/file '
           'tables, v5 entry formats (string, line_strp, strp, udata, data1/2/4/8, data16, block), legacy-compatible views, program extent, cache'),
    H('h5_3_seq', h_seq, _seq_instances, expect=('ok',),
      desc='whole programs (0-5 instructions, symbolic operands, symbolic header scalars) through the real header parser: rows equal the fold of the '
           'reference step; end_sequence resets; define_file extends the file table; unknown extended opcodes skipped by length; two programs per section'),
    H('h5_5_unit_parameters', C4.h_ref_sig8, lambda tier: [c for c in C4.HARNESSES_BY_NAME['h4_6_ref_sig8'].instances(tier) if 'addrs' in c], expect=('ok',),
      desc='the decoding parameters a unit (compile or type unit) hands to its line program - DWARF format and address size, which size DW_LNE_set_address - are '
           'those of its own header, not the defaults of the file (harness shared with C04)'),
    H('h5_4_for_cu', h_for_cu, lambda tier: [dict(little=l, addr=a, ver=v, cu_fmt64=f) for (l, a) in ((True, 8), (False, 4)) for v in (2, 3, 4, 5) for f in (False, True)] +
                                              [dict(little=l, addr=a, ver=v, lver=lv, cu_fmt64=f) for (l, a, f) in ((True, 8, False), (False, 4, True)) for v, lv in ((4, 5), (5, 4), (5, 2), (5, 3), (3, 5), (2, 4))], expect=('ok',),
      desc='line_program_for_CU returns the program at the (symbolic) DW_AT_stmt_list offset; second request returns the same object'),
]
