"""C06 - call-frame information is parsed and interpreted per DWARF / .eh_frame rules."""
from symx.api import H
from harness.dwarfkit import mk_dwarfinfo
from spec import enc
from spec import cfi as CFI

PROPERTY = 'C06'
ASSUMPTIONS = [
    'sections are generated from skeletons (entry order, CIE version, augmentation string, pointer encodings, LEB128 byte counts fixed per instance); every field VALUE is symbolic',
    'table interpretation is a fold over instructions with state = (current row, CIE initial rules, remember stack): one step from an ARBITRARY current row / CIE rule set (h6_3_step) plus bounded sequences (pairs, remember/restore triples) cover instruction lists of any length up to the depth of the remember stack',
    'register operands range over {0..3} (the interpretation treats register numbers uniformly as dictionary keys)',
]
STUBS = ['SymStream (io.BytesIO)', 'SxPacker (struct.Struct)']
OUTSIDE = ['64-bit DWARF format .eh_frame', 'pointer encodings aligned/datarel/textrel/funcrel/indirect', 'remember/restore nesting deeper than 2',
           'augmentation strings not starting with z (other than empty)', 'LEB128 operands longer than 2 (quick) / 4 (thorough) bytes']

ALL_OPS = [0x40, 0x80, 0xc0] + sorted(CFI.EXT)


def _cfi(ctx, data, little, addr, eh=False, address=0):
    CF = ctx.lib('dwarf.callframe')
    S = ctx.lib('dwarf.structs')
    base = S.DWARFStructs(little_endian=little, dwarf_format=32, address_size=addr)
    st = ctx.stream(data)
    return CF.CallFrameInfo(stream=st, size=len(data), address=address, base_structs=base, for_eh_frame=eh), st, base


# ------------------------------------------------------------------ H6.2 instruction split
def h_instr(ctx):
    cfg = ctx.cfg
    little, addr = cfg['little'], cfg['addr']
    EXC = ctx.lib('common.exceptions')
    op = cfg['op']
    info = CFI.opcode_info(op)
    if info is None:
        tail = ctx.bytes('t', 2)
        cfi, st, base = _cfi(ctx, [op] + tail, little, addr)
        try:
            cfi._parse_instructions(base, 0, 3)
        except EXC.DWARFError:
            ctx.outcome('rejected')
            ctx.check('unassigned-opcode-rejected', True)
            return
        ctx.outcome('accepted-unknown')
        ctx.check('unassigned-opcode-rejected', False)
        return
    # primary opcodes: the embedded 6-bit operand is symbolic as well
    if op in (0x40, 0x80, 0xc0):
        low = ctx.uint('low', 6)
        first = op | low
    else:
        low = None
        first = op
    b, name, args = CFI.gen_instr(ctx, 'i', op, cfg['shape'], little, addr)
    b = [first] + b[1:]
    if low is not None:
        args = [low] + args[1:]
    data = [0] * cfg['pre'] + b + ([0x0a] if cfg['trail'] else [])
    cfi, st, base = _cfi(ctx, data, little, addr)
    ins = cfi._parse_instructions(base, cfg['pre'], len(data))
    ctx.outcome('ok')
    want_n = 1 + (1 if cfg['trail'] else 0)
    ctx.check_eq('%s/count' % name, len(ins), want_n)
    if len(ins) != want_n:
        return
    ctx.check_eq('%s/opcode' % name, ins[0].opcode, first)
    ctx.check_eq('%s/args' % name, list(ins[0].args), args)
    if cfg['trail']:
        ctx.check_eq('%s/next' % name, [ins[1].opcode, list(ins[1].args)], [0x0a, []])
    CF = ctx.lib('dwarf.callframe')
    ctx.check_eq('%s/name' % name, CF.instruction_name(ins[0].opcode), name)


# ------------------------------------------------------------------ H6.3 table interpretation
RULES = ['UNDEFINED', 'SAME_VALUE', 'OFFSET', 'VAL_OFFSET', 'REGISTER', 'EXPRESSION']


def _mk_entries(ctx, CF, caf, daf, cie_line, cie_order, instrs, initial_location, as_cie=False):
    C = ctx.lib('construct')
    S = ctx.lib('dwarf.structs')
    structs = S.DWARFStructs(little_endian=True, dwarf_format=32, address_size=8)
    cie_hdr = C.Container(length=0, CIE_id=0xffffffff, version=3, augmentation=b'', code_alignment_factor=caf,
                          data_alignment_factor=daf, return_address_register=16)
    ins = [CF.CallFrameInstruction(opcode=op, args=list(args)) for op, args in instrs]
    if as_cie:
        return CF.CIE(header=cie_hdr, structs=structs, instructions=ins, offset=0)
    cie = CF.CIE(header=cie_hdr, structs=structs, instructions=[], offset=0)
    if cie_line is not None:
        line = dict(pc=0, cfa=CF.CFARule(reg=cie_line['cfa']['reg'], offset=cie_line['cfa']['offset'], expr=cie_line['cfa']['expr']))
        for r, (t, a) in cie_line['regs'].items():
            line[r] = CF.RegisterRule(t, a)
        cie._decoded_table = CF.DecodedCallFrameTable(table=[line], reg_order=list(cie_order))
    else:
        cie._decoded_table = CF.DecodedCallFrameTable(table=[], reg_order=[])
    fde_hdr = C.Container(length=0, CIE_pointer=0, initial_location=initial_location, address_range=16)
    return CF.FDE(header=fde_hdr, structs=structs, instructions=ins, offset=32, cie=cie)


def _sym_state(ctx, shape):
    """an arbitrary row: CFA rule kind and which registers carry a rule are cfg, all arguments symbolic"""
    if shape is None:
        return None, []
    line = CFI.new_line(0)
    k = shape['cfa']
    if k == 'reg':
        line['cfa'] = dict(reg=ctx.uint('s.cfa.reg', 7), offset=ctx.sint('s.cfa.off', 32), expr=None)
    elif k == 'expr':
        line['cfa'] = dict(reg=None, offset=None, expr=list(ctx.bytes('s.cfa.expr', 2)))
    order = []
    for r, kind in shape['regs']:
        arg = None
        if kind in ('OFFSET', 'VAL_OFFSET'):
            arg = ctx.sint('s.r%d' % r, 32)
        elif kind == 'REGISTER':
            arg = ctx.uint('s.r%d' % r, 7)
        elif kind == 'EXPRESSION':
            arg = list(ctx.bytes('s.r%d' % r, 2))
        line['regs'][r] = (kind, arg)
        order.append(r)
    return line, order + list(shape.get('extra_order', []))


def _gen_args(ctx, nm, op, shape):
    """symbolic args of instruction op; register operands concretised over 0..3"""
    name, emb, kinds = CFI.opcode_info(op)
    args = []
    reg_first = name not in ('DW_CFA_advance_loc', 'DW_CFA_def_cfa_offset', 'DW_CFA_def_cfa_offset_sf', 'DW_CFA_GNU_args_size',
                             'DW_CFA_set_loc', 'DW_CFA_advance_loc1', 'DW_CFA_advance_loc2', 'DW_CFA_advance_loc4', 'DW_CFA_def_cfa_expression')
    if emb is not None:
        if name == 'DW_CFA_advance_loc':
            args.append(ctx.uint(nm + '.low', 6))
        else:
            args.append(ctx.concretize(ctx.int_range(nm + '.reg', 0, 3)))
    for j, k in enumerate(kinds):
        v = '%s.%d' % (nm, j)
        if j == 0 and emb is None and reg_first and k == 'uleb':
            args.append(ctx.concretize(ctx.int_range(v, 0, 3)))
        elif k == 'uleb':
            args.append(ctx.uint(v, 32))
        elif k == 'sleb':
            args.append(ctx.sint(v, 32))
        elif k == 'addr':
            args.append(ctx.uint(v, 64))
        elif k in ('u1', 'u2', 'u4'):
            args.append(ctx.uint(v, 8 * int(k[1])))
        elif k == 'block':
            args.append(list(ctx.bytes(v, 2)))
    return name, args


def h_table(ctx):
    cfg = ctx.cfg
    CF = ctx.lib('dwarf.callframe')
    EXC = ctx.lib('common.exceptions')
    caf = ctx.uint('caf', 16)
    daf = ctx.sint('daf', 16)
    loc = ctx.uint('initial_location', 64)
    as_cie = cfg.get('as_cie', False)
    line, order = _sym_state(ctx, cfg.get('state'))
    instrs = []
    ref = []
    for i, op in enumerate(cfg['ops']):
        name, args = _gen_args(ctx, 'i%d' % i, op, {})
        opcode = op | (args[0] if op in (0x40, 0x80, 0xc0) else 0)
        instrs.append((opcode, args))
        ref.append((name, args))
    try:
        want_rows, want_order = CFI.interpret(ctx, ref, caf, daf, initial=line, initial_order=order,
                                              pc0=0 if as_cie else loc, is_fde=not as_cie)
    except CFI.IllFormed:
        ctx.assume(False)
    entry = _mk_entries(ctx, CF, caf, daf, line, order, instrs, loc, as_cie=as_cie)
    dec = entry.get_decoded()
    got_rows, got_order = CFI.view_table(dec)
    ctx.outcome('ok')
    label = '+'.join(n.replace('DW_CFA_', '') for n, _ in ref) or 'none'
    ctx.check_eq('table/%s/rows' % label, len(got_rows), len(want_rows))
    if len(got_rows) == len(want_rows):
        for g, w in zip(got_rows, want_rows):
            ctx.check_eq('table/%s/pc' % label, g['pc'], w['pc'])
            ctx.check_eq('table/%s/cfa' % label, g['cfa'], w['cfa'])
            ctx.check_eq('table/%s/regs' % label, g['regs'], w['regs'])
    ctx.check_eq('table/%s/reg_order' % label, got_order, want_order)
    ctx.check('table/memo', entry.get_decoded() is dec)
    if not as_cie:
        # decoding an FDE leaves the CIE's decoded table as it was, and decoding another FDE of the same CIE afterwards changes
        # neither (the tables share no mutable state)
        cie = entry.cie
        cdec = cie.get_decoded()
        ctx.check_eq('table/cie-unchanged/reg_order', list(cdec.reg_order), list(order))
        ctx.check_eq('table/cie-unchanged/rows', len(cdec.table), 0 if line is None else 1)
        C = ctx.lib('construct')
        other = CF.FDE(header=C.Container(length=0, CIE_pointer=0, initial_location=loc, address_range=16), structs=entry.structs,
                       instructions=[CF.CallFrameInstruction(opcode=0x80 | 7, args=[7, ctx.uint('other.off', 16)])], offset=64, cie=cie)
        odec = other.get_decoded()
        ctx.check_eq('table/second-fde/reg_order', list(odec.reg_order), list(order) + ([7] if 7 not in order else []))
        ctx.check_eq('table/first-fde-unchanged/reg_order', list(dec.reg_order), want_order)
        ctx.check_eq('table/cie-unchanged-after-second/reg_order', list(cie.get_decoded().reg_order), list(order))


# ------------------------------------------------------------------ H6.1 entry scan
ENC = {'absptr': 0x00, 'uleb128': 0x01, 'udata2': 0x02, 'udata4': 0x03, 'udata8': 0x04, 'sleb128': 0x09, 'sdata2': 0x0a, 'sdata4': 0x0b, 'sdata8': 0x0c}


def _enc_value(ctx, nm, encname, little, addr):
    """symbolic value in pointer encoding -> (bytes, value)"""
    if encname == 'absptr':
        v = ctx.uint(nm, 8 * addr)
        return enc.enc_int(v, addr, little), v
    if encname == 'uleb128':
        v = ctx.uint(nm, 14)
        return enc.uleb_enc(v, 2), v
    if encname == 'sleb128':
        v = ctx.sint(nm, 14)
        return enc.sleb_enc(v, 2), v
    size = int(encname[-1])
    signed = encname[0] == 's'
    v = ctx.sint(nm, 8 * size) if signed else ctx.uint(nm, 8 * size)
    return enc.enc_int(v, size, little), v


def _gen_section(ctx, cfg):
    """-> (bytes, expected entries).  Entry specs: dict(kind='cie'|'fde'|'zero', ...)"""
    little, addr, eh = cfg['little'], cfg['addr'], cfg['eh']
    fmt64 = cfg.get('fmt64', False)
    offsz = 8 if fmt64 else 4
    lensz = 12 if fmt64 else 4
    ents = cfg['entries']
    # first pass: sizes are structure-determined, so lay the entries out with placeholder values to learn the offsets
    offsets = []
    bodies = []
    pos = 0
    want = []
    for i, e in enumerate(ents):
        nm = 'e%d' % i
        w = dict(kind=e['kind'], offset=None)
        if e['kind'] == 'zero':
            body = None
        elif e['kind'] == 'cie':
            ver = e.get('version', 1)
            aug = e.get('aug', '')
            body = []
            body += ([0] * offsz if eh else [0xff] * offsz)
            body += [ver] + [ord(c) for c in aug] + [0]
            if ver >= 4:
                body += [addr, 0]
                w['address_size'] = addr
            caf = ctx.uint(nm + '.caf', 14)
            daf = ctx.sint(nm + '.daf', 14)
            body += enc.uleb_enc(caf, 2) + enc.sleb_enc(daf, 2)
            if ver > 1:
                rar = ctx.uint(nm + '.rar', 14)
                body += enc.uleb_enc(rar, 2)
            else:
                rar = ctx.uint(nm + '.rar', 8)
                body += [rar]
            w.update(version=ver, augmentation=aug.encode(), caf=caf, daf=daf, rar=rar, aug_dict={}, aug_bytes=[])
            if aug.startswith('z'):
                ad = []
                d = {}
                for ch in aug[1:]:
                    if ch == 'L':
                        ad += [ENC[e['lsda_enc']] | (0x10 if e.get('lsda_pcrel') else 0)]
                        d['LSDA_encoding'] = ad[-1]
                    elif ch == 'R':
                        ad += [ENC[e['fde_enc']] | (0x10 if e.get('fde_pcrel') else 0)]
                        d['FDE_encoding'] = ad[-1]
                    elif ch == 'P':
                        pe = ENC[e.get('pers_enc', 'udata4')]
                        b, v = _enc_value(ctx, nm + '.pers', e.get('pers_enc', 'udata4'), little, addr)
                        ad += [pe] + b
                        d['personality'] = (pe, v)
                    elif ch == 'S':
                        d['S'] = True
                body += enc.uleb_enc(len(ad), 1) + ad
                d['length'] = len(ad)
                w['aug_dict'] = d
                w['aug_bytes'] = ad
            ins = [0x0c] + enc.uleb_enc(ctx.uint(nm + '.i.reg', 7), 1) + enc.uleb_enc(ctx.uint(nm + '.i.off', 7), 1) if e.get('instr') else []
            ins += [0] * e.get('pad', 0)
            w['ninstr'] = (1 if e.get('instr') else 0) + e.get('pad', 0)
            body += ins
        else:   # fde
            body = [('cieptr', e['cie'])]
            cie = ents[e['cie']]
            if eh:
                fenc = cie.get('fde_enc', 'absptr')
                b1, v1 = _enc_value(ctx, nm + '.loc', fenc, little, addr)
                b2, v2 = _enc_value(ctx, nm + '.range', fenc, little, addr)
                w.update(loc=v1, range=v2, loc_pcrel=bool(cie.get('fde_pcrel')), loc_field=None)
                body += [('locmark',)] + b1 + b2
                ad = []
                w['lsda'] = None
                if 'L' in cie.get('aug', ''):
                    bl, vl = _enc_value(ctx, nm + '.lsda', cie['lsda_enc'], little, addr)
                    ad = bl
                    w['lsda'] = vl
                    w['lsda_pcrel'] = bool(cie.get('lsda_pcrel'))
                if cie.get('aug', '').startswith('z'):
                    body += enc.uleb_enc(len(ad), 1) + [('lsdamark',)] + ad
                w['aug_bytes'] = ad
            else:
                v1 = ctx.uint(nm + '.loc', 8 * addr)
                v2 = ctx.uint(nm + '.range', 8 * addr)
                body += enc.enc_int(v1, addr, little) + enc.enc_int(v2, addr, little)
                w.update(loc=v1, range=v2, loc_pcrel=False, lsda=None, aug_bytes=[])
            ins = [0x0e] + enc.uleb_enc(ctx.uint(nm + '.i.off', 7), 1) if e.get('instr') else []
            ins += [0] * e.get('pad', 0)
            w['ninstr'] = (1 if e.get('instr') else 0) + e.get('pad', 0)
            w['cie'] = e['cie']
            body += ins
        offsets.append(pos)
        w['offset'] = pos
        bodies.append(body)
        want.append(w)
        if body is None:
            pos += 4
        else:
            n = sum(offsz if isinstance(x, tuple) and x[0] == 'cieptr' else (0 if isinstance(x, tuple) else 1) for x in body)
            w['length'] = n
            pos += lensz + n
    # second pass: resolve pointers
    out = []
    for i, body in enumerate(bodies):
        if body is None:
            out += [0, 0, 0, 0]
            continue
        n = want[i]['length']
        out += ([0xff] * 4 + enc.enc_int(n, 8, little)) if fmt64 else enc.enc_int(n, 4, little)
        for x in body:
            if isinstance(x, tuple):
                if x[0] == 'cieptr':
                    field_off = len(out)
                    target = offsets[x[1]]
                    val = (field_off - target) if eh else target
                    out += enc.enc_int(val, offsz, little)
                    want[i]['cie_pointer'] = val
                elif x[0] == 'locmark':
                    want[i]['loc_field'] = len(out)
                elif x[0] == 'lsdamark':
                    want[i]['lsda_field'] = len(out)
            else:
                out.append(x)
    return out, want


def h_scan(ctx):
    cfg = ctx.cfg
    little, addr, eh = cfg['little'], cfg['addr'], cfg['eh']
    CF = ctx.lib('dwarf.callframe')
    data, want = _gen_section(ctx, cfg)
    secaddr = ctx.uint('section_address', 8 * addr) if eh else 0
    if cfg.get('via') == 'dwarfinfo':
        # through the public accessors of DWARFInfo, on a file that has BOTH call-frame sections; the other one (a lone CIE) is asked
        # for first: each accessor answers from its own section
        other = enc.enc_int(12, 4, little) + enc.enc_int(0 if not eh else 0xffffffff, 4, little) + [1, 0, 1, 0x7c, 16, 0, 0, 0] + ([0, 0, 0, 0] if not eh else [])
        secs = {'eh_frame': data, 'debug_frame': other} if eh else {'debug_frame': data, 'eh_frame': other}
        di, _ = mk_dwarfinfo(ctx, little, addr, addresses={'eh_frame': secaddr} if eh else {}, **secs)
        first = di.CFI_entries() if eh else di.EH_CFI_entries()
        ctx.check_eq('scan/other-section-first', [type(x).__name__ for x in first], ['CIE'] + ([] if eh else ['ZERO']))
        entries = di.EH_CFI_entries() if eh else di.CFI_entries()
    else:
        cfi, st, base = _cfi(ctx, data, little, addr, eh=eh, address=secaddr)
        entries = cfi.get_entries()
    ctx.outcome('ok')
    ctx.check_eq('scan/count', len(entries), len(want))
    if len(entries) != len(want):
        return
    for i, (e, w) in enumerate(zip(entries, want)):
        kind = {'CIE': 'cie', 'FDE': 'fde', 'ZERO': 'zero'}[type(e).__name__]
        ctx.check_eq('scan/kind/%s' % w['kind'], kind, w['kind'])
        ctx.check_eq('scan/offset', e.offset, w['offset'])
        if kind != w['kind'] or kind == 'zero':
            continue
        h = e.header
        ctx.check_eq('scan/%s/length' % kind, h['length'], w['length'])
        ctx.check_eq('scan/%s/instructions' % kind, len(e.instructions), w['ninstr'])
        if kind == 'cie':
            ctx.check_eq('scan/cie/version', h['version'], w['version'])
            ctx.check_eq('scan/cie/augmentation', h['augmentation'], w['augmentation'])
            ctx.check_eq('scan/cie/code_alignment_factor', h['code_alignment_factor'], w['caf'])
            ctx.check_eq('scan/cie/data_alignment_factor', h['data_alignment_factor'], w['daf'])
            ctx.check_eq('scan/cie/return_address_register', h['return_address_register'], w['rar'])
            if 'address_size' in w:
                ctx.check_eq('scan/cie/address_size', h['address_size'], w['address_size'])
            d = e.augmentation_dict
            wd = w['aug_dict']
            for k in ('length', 'LSDA_encoding', 'FDE_encoding'):
                if k in wd:
                    ctx.check_eq('scan/cie/aug/%s' % k, d.get(k), wd[k])
                else:
                    ctx.check('scan/cie/aug/no-%s' % k, k not in d)
            if 'personality' in wd:
                p = d.get('personality')
                ctx.check('scan/cie/aug/personality-present', p is not None)
                if p is not None:
                    ctx.check_eq('scan/cie/aug/personality', [p['encoding'], p['function']], list(wd['personality']))
            if 'S' in wd:
                ctx.check('scan/cie/aug/S', d.get(True) is True)
            ctx.check_eq('scan/cie/aug_bytes', e.augmentation_bytes, ctx.mkbytes(w['aug_bytes']))
            if w['ninstr'] and e.instructions and cfg['entries'][i].get('instr'):
                ctx.check_eq('scan/cie/instr0', [e.instructions[0].opcode] + list(e.instructions[0].args)[:0], [0x0c])
        else:
            ctx.check_eq('scan/fde/CIE_pointer', h['CIE_pointer'], w['cie_pointer'])
            loc = w['loc']
            if w['loc_pcrel']:
                loc = loc + secaddr + w['loc_field']
            ctx.check_eq('scan/fde/initial_location%s' % ('/pcrel' if w['loc_pcrel'] else ''), h['initial_location'], loc)
            ctx.check_eq('scan/fde/address_range', h['address_range'], w['range'])
            ctx.check('scan/fde/cie-link', e.cie is entries[w['cie']])
            if eh:
                ctx.check_eq('scan/fde/aug_bytes', e.augmentation_bytes, ctx.mkbytes(w['aug_bytes']))
                if w['lsda'] is None:
                    ctx.check_eq('scan/fde/lsda/none', e.lsda_pointer, None)
                else:
                    l = w['lsda']
                    if w['lsda_pcrel']:
                        l = l + secaddr + w['lsda_field']
                    ctx.check_eq('scan/fde/lsda%s' % ('/pcrel' if w['lsda_pcrel'] else ''), e.lsda_pointer, l)
    if cfg.get('via') == 'dwarfinfo':
        # asking again, in either order, gives the same entries of the same sections
        again = di.EH_CFI_entries() if eh else di.CFI_entries()
        ctx.check_eq('scan/again', [(type(x).__name__, x.offset) for x in again], [(type(x).__name__, x.offset) for x in entries])
        ctx.check_eq('scan/other-section-again', [type(x).__name__ for x in (di.CFI_entries() if eh else di.EH_CFI_entries())], ['CIE'] + ([] if eh else ['ZERO']))
    else:
        # second request returns the same list
        ctx.check('scan/memo', cfi.get_entries() is entries)


# ------------------------------------------------------------------ instances
def _instr_instances(tier):
    out = []
    lebs = (1, 2) if tier == 'quick' else (1, 2, 4)
    envs = [dict(little=True, addr=8), dict(little=False, addr=4)]
    for e in envs:
        for op in range(0x40):
            if op not in CFI.EXT:
                out.append(dict(e, op=op))
        for op in ALL_OPS:
            name, emb, kinds = CFI.opcode_info(op)
            nleb = sum(1 for k in kinds if k in ('uleb', 'sleb'))
            shapes = [{}]
            if nleb == 1:
                shapes = [dict(leb=[n]) for n in lebs]
            elif nleb == 2:
                shapes = [dict(leb=[a, b]) for a in lebs for b in lebs]
            if 'block' in kinds:
                shapes = [dict(s, blob=k) for s in shapes for k in ((0, 2) if tier == 'quick' else (0, 1, 3))]
                shapes += [dict(shapes[0], blob=2, bloblen=2), dict(shapes[0], blob=130)]       # padded length; an expression of 128 bytes or more
            for s in shapes:
                for pre, trail in ((0, False), (1, True)):
                    out.append(dict(e, op=op, shape=s, pre=pre, trail=trail))
    return out


STATES = [
    None,
    dict(cfa='none', regs=[]),
    dict(cfa='reg', regs=[]),
    dict(cfa='reg', regs=[(0, 'OFFSET'), (1, 'SAME_VALUE')]),
    dict(cfa='expr', regs=[(2, 'REGISTER')]),
    dict(cfa='reg', regs=[(0, 'UNDEFINED'), (1, 'VAL_OFFSET'), (2, 'EXPRESSION')], extra_order=[3]),
]


def _table_instances(tier):
    out = []
    # one step from an arbitrary row / CIE rule set
    for st in STATES:
        out.append(dict(ops=[], state=st))
        for op in ALL_OPS:
            out.append(dict(ops=[op], state=st))
    # CIE decoding (no initial row)
    for op in ALL_OPS:
        out.append(dict(ops=[op], as_cie=True))
    out.append(dict(ops=[], as_cie=True))
    # pairs: history dependent second instructions (quick) / all pairs (thorough)
    second = ALL_OPS if tier == 'thorough' else [0x40, 0xc0, 0x06, 0x0b, 0x0d, 0x0e, 0x13, 0x01]
    for a in ALL_OPS:
        for b in second:
            out.append(dict(ops=[a, b], state=STATES[3]))
            if tier == 'thorough':
                out.append(dict(ops=[a, b], as_cie=True))
    # remember / restore_state stack
    mids = [0x0c, 0x80, 0x07, 0x40, 0x0f, 0xc0, 0x0d] if tier == 'quick' else ALL_OPS
    for m in mids:
        out.append(dict(ops=[0x0a, m, 0x0b], state=STATES[3]))
        out.append(dict(ops=[0x0a, m, 0x0b], state=None))
        out.append(dict(ops=[0x0a, m, 0x0b], as_cie=True))
    out.append(dict(ops=[0x0a, 0x0a, 0x0c, 0x0b, 0x0b], state=STATES[3]))
    out.append(dict(ops=[0x0a, 0x0c, 0x0a, 0x80, 0x0b, 0x40, 0x0b], state=STATES[2]))
    out.append(dict(ops=[0x0c, 0x40, 0x80, 0x02, 0xc0, 0x40], state=STATES[3]))
    return out


def _scan_instances(tier):
    out = []
    # .debug_frame
    for little, addr in ((True, 8), (False, 4)):
        for ver in (1, 3, 4):
            for fmt64 in (False, True):
                cie = dict(kind='cie', version=ver, instr=True, pad=1)
                out.append(dict(little=little, addr=addr, eh=False, fmt64=fmt64, entries=[cie, dict(kind='fde', cie=0, instr=True, pad=2)]))
                out.append(dict(little=little, addr=addr, eh=False, fmt64=fmt64, entries=[dict(kind='fde', cie=1, pad=3), cie, dict(kind='fde', cie=1, instr=True)]))
        out.append(dict(little=little, addr=addr, eh=False, entries=[dict(kind='cie', version=3), dict(kind='cie', version=1, pad=2), dict(kind='fde', cie=0), dict(kind='fde', cie=1)]))
        out.append(dict(little=little, addr=addr, eh=False, entries=[]))
    # .eh_frame
    encs = ['absptr', 'uleb128', 'sleb128', 'udata2', 'udata4', 'udata8', 'sdata2', 'sdata4', 'sdata8']
    for little, addr in ((True, 8), (False, 4)):
        out.append(dict(little=little, addr=addr, eh=True, entries=[dict(kind='cie', version=1, aug='', instr=True), dict(kind='zero')]))
        for fe in encs:
            for pcrel in (False, True):
                if pcrel and fe in ('uleb128',):
                    continue
                cie = dict(kind='cie', version=1, aug='zR', fde_enc=fe, fde_pcrel=pcrel, pad=1)
                out.append(dict(little=little, addr=addr, eh=True, entries=[cie, dict(kind='fde', cie=0, instr=True, pad=1), dict(kind='zero')]))
        for le in (encs if tier == 'thorough' else ['absptr', 'udata4', 'sdata4', 'sleb128']):
            for pcrel in (False, True):
                cie = dict(kind='cie', version=1, aug='zLR', lsda_enc=le, lsda_pcrel=pcrel, fde_enc='sdata4', fde_pcrel=True)
                out.append(dict(little=little, addr=addr, eh=True, entries=[cie, dict(kind='fde', cie=0, pad=2), dict(kind='fde', cie=0, instr=True)]))
        for aug, extra in (('zPLR', dict(pers_enc='udata4')), ('zP', dict(pers_enc='absptr')), ('zS', {}), ('zRS', {}), ('zPR', dict(pers_enc='sdata8')), ('z', {}),
                           # the letters after z may come in any order, the data follows the order of the letters
                           ('zSR', {}), ('zRSL', {}), ('zSPLR', dict(pers_enc='udata4')), ('zRLP', dict(pers_enc='udata2')), ('zLSR', {})):
            cie = dict(kind='cie', version=(3 if aug == 'zS' else 1), aug=aug, lsda_enc='udata4', fde_enc='udata4', **extra)
            ents = [cie] + ([dict(kind='fde', cie=0, instr=True)] if 'R' in aug else []) + [dict(kind='zero')]
            out.append(dict(little=little, addr=addr, eh=True, entries=ents))
        # two CIEs, FDEs pointing at either; FDE placed before the CIE it uses is not possible in .eh_frame (backward displacement), so CIE first
        c0 = dict(kind='cie', version=1, aug='zR', fde_enc='sdata4', fde_pcrel=True)
        c1 = dict(kind='cie', version=1, aug='zR', fde_enc='udata8', pad=3)
        out.append(dict(little=little, addr=addr, eh=True, entries=[c0, dict(kind='fde', cie=0), c1, dict(kind='fde', cie=2), dict(kind='fde', cie=0, pad=1)]))
        # three CIEs sized so that the RAW displacement stored in the FDE of the third (fde + 4 - cie) equals the section offset of the second:
        # a displacement is not an offset, whatever entries have been parsed at that offset
        for p0, p2 in ((4, 0), (6, 2)):
            cs = [dict(kind='cie', version=1, aug='zR', fde_enc='udata4', pad=p) for p in (p0, 0, p2)]
            out.append(dict(little=little, addr=addr, eh=True, entries=cs + [dict(kind='fde', cie=2, instr=True), dict(kind='zero')]))
            out.append(dict(little=little, addr=addr, eh=True, entries=cs + [dict(kind='fde', cie=1), dict(kind='fde', cie=2), dict(kind='zero')]))
    return out


HARNESSES = [
    H('h6_2_instr', h_instr, _instr_instances, expect=('ok', 'rejected'),
      desc='_parse_instructions on one instruction of every opcode (0..0x3f extended + 3 primary with symbolic 6-bit operand): operands symbolic; '
           'opcode, args, name, exact consumption (trailing remember_state) equal the DWARF 5 6.4.2 / 7.24 table; unassigned opcodes rejected',
      bounds={'quick': 'LEB128 operands 1-2 bytes, blocks 0/2/130 bytes and a padded block length', 'thorough': 'LEB128 1/2/4 bytes, blocks 0/1/3/130 and a padded block length'}),
    H('h6_3_table', h_table, _table_instances, expect=('ok',),
      desc='CFIEntry._decode_CFI_table on instruction lists built directly: (a) one step from an arbitrary initial row / CIE rule set (6 state shapes, all '
           'arguments symbolic) for every opcode, (b) CIE decoding, (c) pairs, (d) remember/restore_state patterns; alignment factors, offsets, locations symbolic; '
           'rows, CFA rule, register rules, reg_order equal the reference interpreter of DWARF 5 6.4.2'),
    H('h6_1_scan', h_scan, lambda tier: _scan_instances(tier) + [dict(c, via='dwarfinfo') for c in _scan_instances(tier)[::7]], expect=('ok',),
      desc='.debug_frame (CIE v1/3/4, DWARF32/64, addr 4/8, FDE before its CIE) and .eh_frame (augmentations z, zR, zLR, zPLR, zP, zS, zRS, zPR and other letter orders (zSR, zRSL, zSPLR, zRLP, zLSR); 9 pointer encodings x '
           'abs/pcrel; any section address) sections: kinds, order, offsets, header fields, augmentation dict/bytes, pc-relative initial_location and LSDA, FDE->CIE link'),
]
