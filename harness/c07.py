"""C07 - location and range lists decode to exactly the encoded entries."""
from symx.api import H
from spec import enc
from harness.dwarfkit import mk_dwarfinfo, unit_header, abbrev_table
from harness import c04 as C4

PROPERTY = 'C07'
ASSUMPTIONS = [
    'lists are generated from skeletons (entry kinds, LEB128 byte counts, expression lengths fixed per instance); addresses, offsets, lengths, indices and expression bytes are symbolic',
    'v4 lists: an ordinary entry is neither the terminator (0,0) nor a base-selection entry (begin = max address)',
    'attribute classification is compared on the (attribute, form, version) triples for which DWARF 2-5 are unambiguous',
]
STUBS = ['SymStream (io.BytesIO)', 'SxPacker (struct.Struct)']
OUTSIDE = ['lists with more than 3 entries', 'DW_FORM_data1/data2 as list pointers in DWARF 2/3 and DW_AT_data_member_location with data4/data8 in DWARF 3 (ambiguous in the standard)',
           'sections holding both a pre-v5 and a v5 list section for enumeration (the library refuses)', 'segment selectors']

LLE = dict(end_of_list=0, base_addressx=1, startx_endx=2, startx_length=3, offset_pair=4, default_location=5, base_address=6, start_end=7, start_length=8)
RLE = dict(end_of_list=0, base_addressx=1, startx_endx=2, startx_length=3, offset_pair=4, base_address=5, start_end=6, start_length=7)
AT = dict(location=0x02, ranges=0x55, addr_base=0x73, rnglists_base=0x74, loclists_base=0x8c, low_pc=0x11, frame_base=0x40, GNU_locviews=0x2137)
NADDR = 3
VIEWS = [1, 2, 0, 3]          # two GNU location view pairs (ULEB128 begin, end) stored right before their list


# ------------------------------------------------------------------ generators
def _expr(ctx, nm, k):
    return ctx.bytes(nm, k)


def gen_v4_loclist(ctx, nm, little, addr, kinds):
    """kinds: list of ('loc', exprlen) | ('base',) -> (bytes incl. terminator, expected entries relative offsets)"""
    out = []
    want = []
    mx = (1 << (8 * addr)) - 1
    for i, k in enumerate(kinds):
        off = len(out)
        if k[0] == 'base':
            b = ctx.uint('%s.%d.base' % (nm, i), 8 * addr)
            out += enc.enc_int(mx, addr, little) + enc.enc_int(b, addr, little)
            want.append(('base', off, 2 * addr, b))
        else:
            s, e = ctx.uint('%s.%d.begin' % (nm, i), 8 * addr), ctx.uint('%s.%d.end' % (nm, i), 8 * addr)
            ctx.assume(ctx.land(s != mx, ctx.lor(s != 0, e != 0)))
            ex = _expr(ctx, '%s.%d.expr' % (nm, i), k[1])
            out += enc.enc_int(s, addr, little) + enc.enc_int(e, addr, little) + enc.enc_int(len(ex), 2, little) + ex
            want.append(('loc', off, 2 * addr + 2 + len(ex), s, e, list(ex)))
    out += [0] * (2 * addr)
    return out, want


def gen_v4_rnglist(ctx, nm, little, addr, kinds):
    out = []
    want = []
    mx = (1 << (8 * addr)) - 1
    for i, k in enumerate(kinds):
        off = len(out)
        if k[0] == 'base':
            b = ctx.uint('%s.%d.base' % (nm, i), 8 * addr)
            out += enc.enc_int(mx, addr, little) + enc.enc_int(b, addr, little)
            want.append(('base', off, b))
        else:
            s, e = ctx.uint('%s.%d.begin' % (nm, i), 8 * addr), ctx.uint('%s.%d.end' % (nm, i), 8 * addr)
            ctx.assume(ctx.land(s != mx, ctx.lor(s != 0, e != 0)))
            out += enc.enc_int(s, addr, little) + enc.enc_int(e, addr, little)
            want.append(('range', off, 2 * addr, s, e))
    out += [0] * (2 * addr)
    return out, want


def gen_v5_list(ctx, nm, little, addr, kinds, loc, addrs):
    """v5 entries.  kinds: list of (kind name, exprlen).  addrs: the unit's address table (symbolic values).
    -> (bytes incl. end_of_list, translated expectation, raw expectation)"""
    codes = LLE if loc else RLE
    out = []
    want = []
    raw = []
    for i, k in enumerate(kinds):
        kind = k[0]
        off = len(out)
        b = [codes[kind]]
        v = '%s.%d' % (nm, i)

        def idx(suffix):
            return ctx.int_range(v + suffix, 0, NADDR - 1)

        def uleb(suffix, n=2):
            x = ctx.uint(v + suffix, 7 * n)
            return x, enc.uleb_enc(x, n)

        def address(suffix):
            x = ctx.uint(v + suffix, 8 * addr)
            return x, enc.enc_int(x, addr, little)
        fields = {}
        iw = k[2] if len(k) > 2 else 1        # width of the ULEB128 index operands (1 = minimal; more = padded, equally valid)
        if kind == 'base_addressx':
            i0 = idx('.index'); b += enc.uleb_enc(i0, iw); fields = dict(index=i0)
            tr = ('base', ctx.select(addrs, i0))
        elif kind == 'startx_endx':
            i0, i1 = idx('.start'), idx('.end'); b += enc.uleb_enc(i0, iw) + enc.uleb_enc(i1, iw); fields = dict(start_index=i0, end_index=i1)
            tr = ('entry', ctx.select(addrs, i0), ctx.select(addrs, i1), True)
        elif kind == 'startx_length':
            i0 = idx('.start'); ln, lb = uleb('.len'); b += enc.uleb_enc(i0, iw) + lb; fields = dict(start_index=i0, length=ln)
            a0 = ctx.select(addrs, i0)
            tr = ('entry', a0, a0 + ln, True)
        elif kind == 'offset_pair':
            s, sb = uleb('.so'); e, eb = uleb('.eo', 3); b += sb + eb; fields = dict(start_offset=s, end_offset=e)
            tr = ('entry', s, e, False)
        elif kind == 'default_location':
            tr = ('entry', -1, -1, True)
        elif kind == 'base_address':
            a0, ab = address('.addr'); b += ab; fields = dict(address=a0)
            tr = ('base', a0)
        elif kind == 'start_end':
            a0, ab = address('.sa'); a1, bb = address('.ea'); b += ab + bb; fields = dict(start_address=a0, end_address=a1)
            tr = ('entry', a0, a1, True)
        elif kind == 'start_length':
            a0, ab = address('.sa'); ln, lb = uleb('.len'); b += ab + lb; fields = dict(start_address=a0, length=ln)
            tr = ('entry', a0, a0 + ln, True)
        ex = None
        if loc and kind not in ('base_addressx', 'base_address'):
            ex = _expr(ctx, v + '.expr', k[1] if len(k) > 1 else 0)
            b += enc.uleb_enc(len(ex), k[2] if len(k) > 2 else 1) + ex      # the expression length is a ULEB128 (here possibly padded)
            fields['loc_expr'] = list(ex)
        out += b
        want.append((tr, off, len(b), None if ex is None else list(ex)))
        raw.append(('DW_%s_%s' % ('LLE' if loc else 'RLE', kind), off, len(b), fields))
    out += [0]
    return out, want, raw


def _addr_table(ctx, little, addr, fmt64=False, nm='addrtab'):
    addrs = [ctx.uint('%s%d' % (nm, i), 8 * addr) for i in range(NADDR)]
    body = enc.enc_int(5, 2, little) + [addr, 0] + sum([enc.enc_int(a, addr, little) for a in addrs], [])
    sec = (([0xff] * 4 + enc.enc_int(len(body), 8, little)) if fmt64 else enc.enc_int(len(body), 4, little)) + body
    base = len(sec) - NADDR * addr
    return sec, base, addrs


def _v5_block(ctx, little, addr, fmt64, lists, with_table, nm='blk', table_order=None):
    """one unit block of .debug_loclists/.debug_rnglists: header, optional offset table, lists back to back.
    lists: list of byte lists.  -> (bytes, dict(list offsets relative to block start, table_off, header fields))"""
    offsz = 8 if fmt64 else 4
    cnt = len(lists) if with_table else 0
    hdr = enc.enc_int(5, 2, little) + [addr, 0] + enc.enc_int(cnt, 4, little)
    lensz = 12 if fmt64 else 4
    table_off = lensz + len(hdr)
    pos = table_off + cnt * offsz
    offs = []
    body = []
    for l in lists:
        offs.append(pos)
        body += l
        pos += len(l)
    # the offset table is an index -> list mapping: it need not follow the storage order of the lists
    tab_offs = [offs[i] for i in table_order] if (with_table and table_order) else offs
    table = sum([enc.enc_int(o - table_off, offsz, little) for o in tab_offs], []) if with_table else []
    n = len(hdr) + len(table) + len(body)
    pre = ([0xff] * 4 + enc.enc_int(n, 8, little)) if fmt64 else enc.enc_int(n, 4, little)
    return pre + hdr + table + body, dict(offs=offs, tab_offs=tab_offs, table_off=table_off, unit_length=n, count=cnt, size=len(pre) + n, after_length=len(pre))


def _mk_cu(ctx, little, addr, ver, fmt64, attrs, addr_base=None, extra_secs=None, dies=None, abbrev_off=0):
    """a unit whose top DIE carries `attrs` [(attr, form, bytes)] (+ DW_AT_addr_base) and optional child DIEs [(attr, form, bytes)]"""
    offsz = 8 if fmt64 else 4
    top = list(attrs)
    if addr_base is not None:
        top.append((AT['addr_base'], 0x17, enc.enc_int(addr_base, offsz, little)))
    decls = [(1, 0x11, bool(dies), [(a, f) for a, f, _ in top])]
    body = [1] + sum([b for _, _, b in top], [])
    for i, d in enumerate(dies or []):
        decls.append((2 + i, 0x34, False, [(a, f) for a, f, _ in d]))
        body += [2 + i] + sum([b for _, _, b in d], [])
    if dies:
        body += [0]
    h, hsz = unit_header(ver, fmt64, little, addr, abbrev_off, 'compile', body_len=len(body))
    return h + body, abbrev_table(decls)


def _check_loc(ctx, label, got, want, base):
    """got: list of library entries; want: translated expectations from the generator (offsets relative to base)"""
    ctx.check_eq(label + '/count', len(got), len(want))
    if len(got) != len(want):
        return
    for g, (tr, off, ln, ex) in zip(got, want):
        if tr[0] == 'base':
            ctx.check_eq(label + '/base', [type(g).__name__, g.entry_offset, g.entry_length, g.base_address], ['BaseAddressEntry', base + off, ln, tr[1]])
        else:
            ctx.check_eq(label + '/entry', [type(g).__name__, g.entry_offset, g.entry_length, g.begin_offset, g.end_offset, list(g.loc_expr), g.is_absolute],
                         ['LocationEntry', base + off, ln, tr[1], tr[2], ex, tr[3]])


def _check_rng(ctx, label, got, want, base):
    ctx.check_eq(label + '/count', len(got), len(want))
    if len(got) != len(want):
        return
    for g, (tr, off, ln, ex) in zip(got, want):
        if tr[0] == 'base':
            ctx.check_eq(label + '/base', [type(g).__name__, g.entry_offset, g.base_address], ['BaseAddressEntry', base + off, tr[1]])
        else:
            ctx.check_eq(label + '/entry', [type(g).__name__, g.entry_offset, g.entry_length, g.begin_offset, g.end_offset, g.is_absolute],
                         ['RangeEntry', base + off, ln, tr[1], tr[2], tr[3]])


# ------------------------------------------------------------------ H7.1 v4 lists
def h_v4(ctx):
    cfg = ctx.cfg
    little, addr, loc = cfg['little'], cfg['addr'], cfg['loc']
    pad = cfg.get('pad', 0)
    if loc:
        data, want = gen_v4_loclist(ctx, 'l', little, addr, cfg['kinds'])
    else:
        data, want = gen_v4_rnglist(ctx, 'l', little, addr, cfg['kinds'])
    sec = [0x5A] * pad + data + [0x5A] * 3
    cu, ab = _mk_cu(ctx, little, addr, 4, False, [])
    di, streams = mk_dwarfinfo(ctx, little, addr, debug_info=cu, debug_abbrev=ab, **{'debug_loc' if loc else 'debug_ranges': sec})
    lists = di.location_lists() if loc else di.range_lists()
    st = streams['debug_loc' if loc else 'debug_ranges']
    st.seek(2)
    got = lists.get_location_list_at_offset(pad) if loc else lists.get_range_list_at_offset(pad)
    ctx.outcome('ok')
    label = 'v4/%s' % ('loc' if loc else 'ranges')
    ctx.check_eq(label + '/count', len(got), len(want))
    if len(got) != len(want):
        return
    for g, w in zip(got, want):
        if w[0] == 'base':
            if loc:
                ctx.check_eq(label + '/base', [type(g).__name__, g.entry_offset, g.entry_length, g.base_address], ['BaseAddressEntry', pad + w[1], w[2], w[3]])
            else:
                ctx.check_eq(label + '/base', [type(g).__name__, g.entry_offset, g.base_address], ['BaseAddressEntry', pad + w[1], w[2]])
        elif loc:
            ctx.check_eq(label + '/entry', [type(g).__name__, g.entry_offset, g.entry_length, g.begin_offset, g.end_offset, list(g.loc_expr), g.is_absolute],
                         ['LocationEntry', pad + w[1], w[2], w[3], w[4], w[5], False])
        else:
            ctx.check_eq(label + '/entry', [type(g).__name__, g.entry_offset, g.entry_length, g.begin_offset, g.end_offset, g.is_absolute],
                         ['RangeEntry', pad + w[1], w[2], w[3], w[4], False])
    ctx.check_eq(label + '/consumed-to-terminator', st.tell(), pad + len(data))


# ------------------------------------------------------------------ H7.2 v5 lists, H7.3 index -> offset
def h_v5(ctx):
    cfg = ctx.cfg
    little, addr, loc, fmt64 = cfg['little'], cfg['addr'], cfg['loc'], cfg.get('fmt64', False)
    addrsec, abase, addrs = _addr_table(ctx, little, addr, fmt64)
    l0, want0, raw0 = gen_v5_list(ctx, 'a', little, addr, cfg['kinds'], loc, addrs)
    l1, want1, raw1 = gen_v5_list(ctx, 'b', little, addr, [('offset_pair', 1)], loc, addrs)
    blk, info = _v5_block(ctx, little, addr, fmt64, [l0, l1], with_table=True)
    offsz = 8 if fmt64 else 4
    base_attr = AT['loclists_base'] if loc else AT['rnglists_base']
    use_attr = AT['location'] if loc else AT['ranges']
    idx = ctx.int_range('index', 0, 1)
    attrs = [(use_attr, 0x22 if loc else 0x23, enc.uleb_enc(idx, 1)), (base_attr, 0x17, enc.enc_int(info['table_off'], offsz, little))]
    secname = 'debug_loclists' if loc else 'debug_rnglists'
    secs = {secname: blk}
    both = cfg.get('both')
    if both:
        # the same unit also uses the OTHER indexed form (both index spaces start at 0, the two offset tables differ)
        m0, _w, _r = gen_v5_list(ctx, 'c', little, addr, [('start_end', 0), ('offset_pair', 0)], not loc, addrs)
        m1, _w, _r = gen_v5_list(ctx, 'd', little, addr, [('offset_pair', 0)], not loc, addrs)
        blk2, info2 = _v5_block(ctx, little, addr, fmt64, [m0, m1], with_table=True)
        idx2 = ctx.int_range('index2', 0, 1)
        oattrs = [(AT['ranges'] if loc else AT['location'], 0x23 if loc else 0x22, enc.uleb_enc(idx2, 1)),
                  (AT['rnglists_base'] if loc else AT['loclists_base'], 0x17, enc.enc_int(info2['table_off'], offsz, little))]
        attrs = (oattrs + attrs) if both == 'other-first' else (attrs + oattrs)
        secs['debug_rnglists' if loc else 'debug_loclists'] = blk2
    if cfg.get('base_first'):
        attrs = attrs[::-1]
    cu, ab = _mk_cu(ctx, little, addr, 5, fmt64, attrs, addr_base=abase)
    di, streams = mk_dwarfinfo(ctx, little, addr, debug_info=cu, debug_abbrev=ab, debug_addr=addrsec, **secs)
    unit = next(di.iter_CUs())
    top = unit.get_top_DIE()
    a = top.attributes['DW_AT_location' if loc else 'DW_AT_ranges']
    k = ctx.concretize(idx)
    ctx.outcome('ok')
    label = 'v5/%s' % ('loc' if loc else 'rng')
    if both:
        o = top.attributes['DW_AT_ranges' if loc else 'DW_AT_location']
        ctx.check_eq(label + '/other-indexed-form/index->offset', o.value, ctx.select(info2['offs'], idx2))
    ctx.check_eq(label + '/index->offset', a.value, info['offs'][k])
    ctx.check_eq(label + '/raw-index', a.raw_value, idx)
    lists = di.location_lists() if loc else di.range_lists()
    st = streams[secname]
    st.seek(1)
    want, raw = (want0, raw0) if k == 0 else (want1, raw1)
    if loc:
        got = lists.get_location_list_at_offset(a.value, top)
        _check_loc(ctx, label, got, want, info['offs'][k])
    else:
        got = lists.get_range_list_at_offset(a.value, unit)
        _check_rng(ctx, label, got, want, info['offs'][k])
        # raw view and explicit translation
        ex = lists.get_range_list_at_offset_ex(a.value)
        ctx.check_eq(label + '/ex/count', len(ex), len(raw))
        if len(ex) == len(raw):
            for g, (et, off, ln, fields) in zip(ex, raw):
                ctx.check_eq(label + '/ex/entry', [g.entry_type, g.entry_offset, g.entry_length], [et, info['offs'][k] + off, ln])
                for f, v in fields.items():
                    ctx.check_eq(label + '/ex/field', g[f], v)
            tr = [lists.translate_v5_entry(g, unit) for g in ex]
            _check_rng(ctx, label + '/translate', tr, want, info['offs'][k])


# ------------------------------------------------------------------ H7.4 unit-block iteration
def h_blocks(ctx):
    cfg = ctx.cfg
    little, addr, loc = cfg['little'], cfg['addr'], cfg['loc']
    addrsec, abase, addrs = _addr_table(ctx, little, addr)
    sec = []
    blocks = []
    for b, (fmt64, nlists, with_table) in enumerate(cfg['blocks']):
        lists = []
        raws = []
        for i in range(nlists):
            kinds = [[('offset_pair', 1)], [('base_address',), ('start_length', 0)], [('start_end', 2)]][(b + i) % 3]
            l, want, raw = gen_v5_list(ctx, 'b%dl%d' % (b, i), little, addr, kinds, loc, addrs)
            lists.append(l)
            raws.append(raw)
        order = list(reversed(range(nlists))) if cfg.get('reversed_table') else None
        blk, info = _v5_block(ctx, little, addr, fmt64, lists, with_table, table_order=order)
        info.update(start=len(sec), raws=raws, fmt64=fmt64)
        blocks.append(info)
        sec += blk
    cu, ab = _mk_cu(ctx, little, addr, 5, False, [], addr_base=abase)
    secname = 'debug_loclists' if loc else 'debug_rnglists'
    di, streams = mk_dwarfinfo(ctx, little, addr, debug_info=cu, debug_abbrev=ab, debug_addr=addrsec, **{secname: sec})
    lists = di.location_lists() if loc else di.range_lists()
    hdrs = ctx.walk(lambda: lists.iter_CUs())
    ctx.outcome('ok')
    label = 'blocks/%s' % ('loc' if loc else 'rng')
    ctx.check_eq(label + '/count', len(hdrs), len(blocks))
    if len(hdrs) != len(blocks):
        return
    for h, w in zip(hdrs, blocks):
        ctx.check_eq(label + '/header', [h.cu_offset, h.unit_length, h.is64, h.version, h.address_size, h.offset_count, h.offset_table_offset, h.offset_after_length],
                     [w['start'], w['unit_length'], w['fmt64'], 5, addr, w['count'], w['start'] + w['table_off'], w['start'] + w['after_length']])
        if w['count']:
            ctx.check_eq(label + '/offsets', list(h.offsets), [o - w['table_off'] for o in w['tab_offs']])
        else:
            ctx.check(label + '/no-offsets', not h.offsets)
        if not loc:
            got = ctx.walk(lambda: lists.iter_CU_range_lists_ex(h))
            ctx.check_eq(label + '/lists-in-block/count', len(got), len(w['raws']))
            if len(got) == len(w['raws']):
                for gl, raw, lo in zip(got, w['raws'], w['offs']):
                    ctx.check_eq(label + '/lists-in-block/entries', [(g.entry_type, g.entry_offset, g.entry_length) for g in gl],
                                 [(et, w['start'] + lo + off, ln) for et, off, ln, _ in raw])


# ------------------------------------------------------------------ H7.5 enumeration by DIEs
def h_enum(ctx):
    cfg = ctx.cfg
    little, addr, loc, ver = cfg['little'], cfg['addr'], cfg['loc'], cfg['ver']
    offsz = 4
    # three lists in the section, with a gap; the DIEs reference a subset in arbitrary order, one of them twice
    two = cfg.get('two_units')      # (references of a second unit): each unit has its own address table; indexed entries of a list
    #                                 are resolved through the table of the unit that references the list
    if ver >= 5:
        addrsec, abase, addrs = _addr_table(ctx, little, addr)
        kindsets = [[('offset_pair', 1)], [('start_end', 0)], [('base_address',), ('offset_pair', 0)]]
        owner_addrs = [addrs] * 3
        if two is not None:
            addrsec2, abase2, addrs2 = _addr_table(ctx, little, addr, nm='addrtabB')
            abase2 += len(addrsec)
            addrsec = addrsec + addrsec2
            kindsets = [[('startx_endx', 1)], [('base_addressx',), ('offset_pair', 0)], [('startx_length', 0)]]
            owner_addrs = [addrs2 if i in two else addrs for i in range(3)]
        ls = []
        for i in range(3):
            l, want, raw = gen_v5_list(ctx, 'l%d' % i, little, addr, kindsets[i], loc, owner_addrs[i])
            if cfg.get('views') is not None and i == cfg['views'][0]:
                l = VIEWS + l
            ls.append((l, want))
        blk, info = _v5_block(ctx, little, addr, False, [l for l, _ in ls], with_table=False)
        offs = info['offs']
        sec = blk
        secname = 'debug_loclists' if loc else 'debug_rnglists'
        extra = dict(debug_addr=addrsec)
    else:
        ls = []
        sec = [0x5A] * 3
        offs = []
        for i in range(3):
            kinds = [[('loc', 1)], [('base',), ('loc', 0)], [('loc', 2), ('loc', 0)]][i]
            l, want = (gen_v4_loclist if loc else gen_v4_rnglist)(ctx, 'l%d' % i, little, addr, kinds)
            if cfg.get('views') is not None and i == cfg['views'][0]:
                l = VIEWS + l
            offs.append(len(sec))
            sec += l
            ls.append((l, want))
            if i == 0:
                sec += [0x5A] * 2
        secname = 'debug_loc' if loc else 'debug_ranges'
        extra = {}
        abase = None
    refs = cfg['refs']            # e.g. [2, 0, 2]
    use_attr = AT['location'] if loc else AT['ranges']
    form = 0x17 if ver >= 4 else 0x06
    dies = [[(use_attr if k % 2 == 0 or not loc else AT['frame_base'], form, enc.enc_int(offs[r], offsz, little))] for k, r in enumerate(refs)]
    views = cfg.get('views')      # (list with GNU location views, second list referenced by ANOTHER attribute of the same entry)
    if views is not None:
        rv, r2 = views
        dies = [[(AT['location'], form, enc.enc_int(offs[rv] + len(VIEWS), offsz, little)), (AT['GNU_locviews'], form, enc.enc_int(offs[rv], offsz, little)),
                 (AT['frame_base'], form, enc.enc_int(offs[r2], offsz, little))]] + dies
    cu, ab = _mk_cu(ctx, little, addr, ver, False, [], addr_base=abase, dies=dies)
    if two is not None:
        dies2 = [[(use_attr, form, enc.enc_int(offs[r], offsz, little))] for r in two]
        cu2, ab2 = _mk_cu(ctx, little, addr, ver, False, [], addr_base=abase2, dies=dies2, abbrev_off=len(ab))
        di, streams = mk_dwarfinfo(ctx, little, addr, debug_info=cu + cu2, debug_abbrev=ab + ab2, **dict(extra, **{secname: sec}))
        lists = di.location_lists() if loc else di.range_lists()
    elif cfg.get('mixed'):
        # units of the other generation linked into the same file, with their own list section: their list attributes are
        # offsets into THAT section and must not be taken for lists of the section being enumerated
        ver2 = 4 if ver >= 5 else 5
        form2 = 0x17
        other = [[(use_attr, form2, enc.enc_int(o, offsz, little))] for o in (1, 7)]
        cu2, ab2 = _mk_cu(ctx, little, addr, ver2, False, [], dies=other, abbrev_off=len(ab))
        other_name = {('debug_loclists'): 'debug_loc', 'debug_rnglists': 'debug_ranges', 'debug_loc': 'debug_loclists', 'debug_ranges': 'debug_rnglists'}[secname]
        secs = dict(extra, **{secname: sec, other_name: [0] * 40})
        di, streams = mk_dwarfinfo(ctx, little, addr, debug_info=cu + cu2, debug_abbrev=ab + ab2, **secs)
        mod = ctx.lib('dwarf.locationlists' if loc else 'dwarf.ranges')
        sec_desc = getattr(di, secname + '_sec')
        lists = (mod.LocationLists if loc else mod.RangeLists)(sec_desc.stream, di.structs, 5 if ver >= 5 else 4, di)
    else:
        di, streams = mk_dwarfinfo(ctx, little, addr, debug_info=cu, debug_abbrev=ab, **dict(extra, **{secname: sec}))
        lists = di.location_lists() if loc else di.range_lists()
    got = ctx.drain(lists.iter_location_lists() if loc else lists.iter_range_lists())
    ctx.outcome('ok')
    want_idx = sorted(set(refs) | (set(views) if views is not None else set()) | set(two or ()))
    label = 'enum/%s/v%d%s%s' % ('loc' if loc else 'rng', ver, '/views' if views is not None else '', '/two-units' if two is not None else '')
    ctx.check_eq(label + '/visited-count', len(got), len(want_idx))
    if len(got) != len(want_idx):
        return
    if cfg.get('mixed'):
        # with both generations of a list section present the DWARFInfo hands out a pair that dispatches on the unit's version
        pair = di.location_lists() if loc else di.range_lists()
        ctx.check_eq('enum/pair/type', type(pair).__name__, 'LocationListsPair' if loc else 'RangeListsPair')
        unit0 = next(di.iter_CUs())
        kids = list(unit0.get_top_DIE().iter_children())
        for kd, r in zip(kids, refs):
            if loc:
                via_pair = pair.get_location_list_at_offset(offs[r], kd)
                direct = lists.get_location_list_at_offset(offs[r], kd)
            else:
                via_pair = pair.get_range_list_at_offset(offs[r], unit0)
                direct = lists.get_range_list_at_offset(offs[r], unit0)
            ctx.check_eq(label + '/pair/same-list-as-the-section-object', [tuple(x) for x in via_pair], [tuple(x) for x in direct])
            ctx.check_eq(label + '/pair/list-length', len(via_pair), len(ls[r][1]))
    for g, r in zip(got, want_idx):
        nv = 0
        if views is not None and r == views[0]:
            # the list with views is yielded as its view pairs followed by its entries
            nv = len(VIEWS) // 2
            ctx.check_eq(label + '/view-pairs', [(type(x).__name__, x.entry_offset, x.begin, x.end) for x in g[:nv]],
                         [('LocationViewPair', offs[r] + 2 * i, VIEWS[2 * i], VIEWS[2 * i + 1]) for i in range(nv)])
        first = g[nv] if len(g) > nv else None
        ctx.check_eq(label + '/list-length', len(g) - nv, len(ls[r][1]))
        if first is not None:
            ctx.check_eq(label + '/first-entry-offset', first.entry_offset, offs[r] + 2 * nv)
        if ver >= 5:
            # the whole translated list, entry for entry (indexed addresses through the referencing unit's own table)
            (_check_loc if loc else _check_rng)(ctx, label + '/list', g[nv:], ls[r][1], offs[r] + (len(VIEWS) if nv else 0))


# ------------------------------------------------------------------ H7.6 classification
LOC_ATTRS = ['DW_AT_location', 'DW_AT_string_length', 'DW_AT_return_addr', 'DW_AT_data_member_location', 'DW_AT_frame_base', 'DW_AT_segment',
             'DW_AT_static_link', 'DW_AT_use_location', 'DW_AT_vtable_elem_location']
OTHER_ATTRS = ['DW_AT_name', 'DW_AT_low_pc', 'DW_AT_byte_size', 'DW_AT_type']
CL_FORMS = ['DW_FORM_block1', 'DW_FORM_block2', 'DW_FORM_block4', 'DW_FORM_block', 'DW_FORM_exprloc', 'DW_FORM_data4', 'DW_FORM_data8', 'DW_FORM_sec_offset',
            'DW_FORM_loclistx', 'DW_FORM_udata', 'DW_FORM_sdata', 'DW_FORM_string', 'DW_FORM_ref4', 'DW_FORM_addr', 'DW_FORM_flag', 'DW_FORM_strp']


def _ref_class(name, form, ver):
    """-> 'expr' | 'list' | 'none' | None (ambiguous / not applicable in that version)"""
    if form == 'DW_FORM_exprloc' and ver < 4:
        return None
    if form in ('DW_FORM_sec_offset',) and ver < 4:
        return None
    if form == 'DW_FORM_loclistx' and ver < 5:
        return None
    if form in ('DW_FORM_block1', 'DW_FORM_block2', 'DW_FORM_block4', 'DW_FORM_block') and ver >= 4:
        return None                      # DWARF 4+: a block is not an exprloc; these attributes do not take blocks any more
    if name not in LOC_ATTRS:
        return 'none'
    if name == 'DW_AT_data_member_location' and ver == 3 and form in ('DW_FORM_data4', 'DW_FORM_data8'):
        return None
    if name == 'DW_AT_data_member_location' and form in ('DW_FORM_udata', 'DW_FORM_sdata'):
        return 'none'
    if form.startswith('DW_FORM_block'):
        return 'expr'
    if form == 'DW_FORM_exprloc':
        return 'expr'
    if form in ('DW_FORM_data4', 'DW_FORM_data8'):
        return 'list' if ver < 4 else None
    if form in ('DW_FORM_sec_offset', 'DW_FORM_loclistx'):
        return 'list'
    return 'none'


def h_classify(ctx):
    LL = ctx.lib('dwarf.locationlists')
    D = ctx.lib('dwarf.die')
    ver = ctx.cfg['ver']
    ctx.outcome('ok')
    n = 0
    for name in LOC_ATTRS + OTHER_ATTRS:
        for form in CL_FORMS:
            want = _ref_class(name, form, ver)
            if want is None:
                continue
            attr = D.AttributeValue(name=name, form=form, value=0, raw_value=0, offset=0, indirection_length=0)
            has = LL.LocationParser.attribute_has_location(attr, ver)
            ctx.check_eq('classify/v%d/%s/%s/has_location' % (ver, name, form), bool(has), want != 'none')
            if want != 'none':
                ctx.check_eq('classify/v%d/%s/%s/expr' % (ver, name, form), bool(LL.LocationParser._attribute_has_loc_expr(attr, ver)), want == 'expr')
                ctx.check_eq('classify/v%d/%s/%s/list' % (ver, name, form), bool(LL.LocationParser._attribute_has_loc_list(attr, ver)), want == 'list')
            n += 1
    ctx.observe('triples', n)


def h_parse_from_attribute(ctx):
    """parse_from_attribute returns the expression bytes or the designated list"""
    cfg = ctx.cfg
    little, addr = cfg['little'], cfg['addr']
    LL = ctx.lib('dwarf.locationlists')
    data, want = gen_v4_loclist(ctx, 'l', little, addr, [('loc', 1)])
    ex = ctx.bytes('expr', 2)
    dies = [[(AT['location'], 0x18, [2] + ex)], [(AT['location'], 0x17, enc.enc_int(3, 4, little))]]
    cu, ab = _mk_cu(ctx, little, addr, 4, False, [], dies=dies)
    di, _ = mk_dwarfinfo(ctx, little, addr, debug_info=cu, debug_abbrev=ab, debug_loc=[0x5A] * 3 + data)
    unit = next(di.iter_CUs())
    kids = list(unit.get_top_DIE().iter_children())
    lp = LL.LocationParser(di.location_lists())
    r0 = lp.parse_from_attribute(kids[0].attributes['DW_AT_location'], 4, kids[0])
    r1 = lp.parse_from_attribute(kids[1].attributes['DW_AT_location'], 4, kids[1])
    ctx.outcome('ok')
    ctx.check_eq('parse_from_attribute/expr', [type(r0).__name__, list(r0.loc_expr)], ['LocationExpr', list(ex)])
    ctx.check('parse_from_attribute/list', isinstance(r1, list) and len(r1) == 1)
    if isinstance(r1, list) and len(r1) == 1:
        ctx.check_eq('parse_from_attribute/list-entry', [r1[0].begin_offset, r1[0].end_offset, list(r1[0].loc_expr)], [want[0][3], want[0][4], want[0][5]])


# ------------------------------------------------------------------ instances
ENVS = [(True, 8), (False, 4), (True, 4), (False, 8)]


def _v4_instances(tier):
    out = []
    for little, addr in ENVS if tier == 'thorough' else ENVS[:2]:
        for loc in (True, False):
            for kinds in ([], [('loc', 0)], [('loc', 3)], [('base',), ('loc', 1)], [('loc', 2), ('base',), ('loc', 0)]):
                out.append(dict(little=little, addr=addr, loc=loc, kinds=kinds, pad=5 if kinds else 0))
    return out


def _v5_instances(tier):
    out = []
    for little, addr in ENVS if tier == 'thorough' else ENVS[:2]:
        for loc in (True, False):
            names = [k for k in (LLE if loc else RLE) if k != 'end_of_list']
            for kn in names:
                for fmt64 in (False, True):
                    out.append(dict(little=little, addr=addr, loc=loc, fmt64=fmt64, kinds=[(kn, 2)], base_first=fmt64))
            out.append(dict(little=little, addr=addr, loc=loc, kinds=[], base_first=True))
            for both in ('other-first', 'other-last'):
                out.append(dict(little=little, addr=addr, loc=loc, kinds=[('offset_pair', 1), ('base_address',)], base_first=(both == 'other-last'), both=both))
            if loc:
                out.append(dict(little=little, addr=addr, loc=True, kinds=[('offset_pair', 2, 2), ('start_length', 1, 3), ('default_location', 0, 2)], base_first=True))
            out.append(dict(little=little, addr=addr, loc=loc, kinds=[('base_addressx',), ('offset_pair', 0), ('start_length', 1)], base_first=False))
            out.append(dict(little=little, addr=addr, loc=loc, kinds=[('startx_endx', 1), ('base_address',), ('startx_length', 0)], base_first=True))
            out.append(dict(little=little, addr=addr, loc=loc, kinds=[('base_addressx', 0, 2), ('startx_endx', 1, 2), ('startx_length', 0, 3)], base_first=True))      # padded index operands
    return out


HARNESSES = [
    H('h7_3_list_pointer_forms', C4.h_forms, lambda tier: [c for c in C4._form_instances(tier) if C4.F.FORMS[c['form']][0] in ('DW_FORM_loclistx', 'DW_FORM_rnglistx', 'DW_FORM_sec_offset', 'DW_FORM_data4', 'DW_FORM_data8')], expect=('ok',),
      desc='the attribute value that designates a list: DW_FORM_loclistx / rnglistx (index resolved through the unit\'s offset table, base attribute before or after), sec_offset, data4/8 - stored directly, '
           'behind DW_FORM_indirect, in the top entry or in a child entry (harness shared with C04)'),
    H('h7_1_v4', h_v4, _v4_instances, expect=('ok',),
      desc='.debug_loc / .debug_ranges lists of 0-3 entries + terminator at an offset: begin/end/base and expression bytes symbolic; base-selection sentinel 2^(8*addr)-1; entry offsets and lengths exact'),
    H('h7_2_v5', h_v5, _v5_instances, expect=('ok',),
      desc='.debug_loclists / .debug_rnglists: every DW_LLE / DW_RLE kind with symbolic operands, translated through a symbolic .debug_addr table (startx* / base_addressx, start_length -> '
           '[start, start+length), default location); DW_FORM_loclistx / rnglistx index (symbolic) -> base + offset table entry, base attribute before or after; raw _ex view and translate_v5_entry'),
    H('h7_4_blocks', h_blocks, lambda tier: [dict(little=l, addr=a, loc=lo, blocks=b) for l, a in ENVS[:2] for lo in (True, False)
                                             for b in ([(False, 1, False)], [(False, 2, True), (True, 1, True)], [(True, 2, False), (False, 0, False), (False, 1, True)])] +
                                            [dict(little=l, addr=a, loc=lo, blocks=[(False, 2, True), (True, 3, True)], reversed_table=True) for l, a in ENVS[:2] for lo in (True, False)], expect=('ok',),
      desc='unit blocks of the v5 list sections (DWARF32/64, offset_count 0-2, several blocks): iter_CUs headers and offset tables; iter_CU_range_lists_ex yields exactly the lists between the offset table and the block end'),
    H('h7_5_enum', h_enum, lambda tier: [dict(little=l, addr=a, loc=lo, ver=v, refs=r) for l, a in ENVS[:2] for lo in (True, False) for v in (3, 4, 5)
                                         for r in ([0], [2, 0, 2], [1, 2])] +
                                        [dict(little=l, addr=a, loc=lo, ver=v, refs=[2, 0], mixed=True) for l, a in ENVS[:2] for lo in (True, False) for v in (4, 5)] +
                                        [dict(little=l, addr=a, loc=True, ver=v, refs=r, views=vw) for l, a in ENVS[:2] for v in (4, 5) for r, vw in (([], (0, 2)), ([1], (2, 0)), ([2], (1, 2)))] +
                                        [dict(little=l, addr=a, loc=lo, ver=5, refs=r, two_units=t) for l, a in ENVS[:2] for lo in (True, False) for r, t in (([2, 0], [1]), ([1], [0, 2]))], expect=('ok',),
      desc='iter_location_lists / iter_range_lists: the visited lists are exactly those referenced by the entries of the unit (shared references once), in ascending offset order, skipping gaps'),
    H('h7_6_classify', h_classify, lambda tier: [dict(ver=v) for v in (2, 3, 4, 5)], expect=('ok',),
      desc='LocationParser.attribute_has_location and the expression/list split for every unambiguous (attribute, form, version) triple of DWARF 2-5 (ground obligations)'),
    H('h7_6_parse_from_attribute', h_parse_from_attribute, lambda tier: [dict(little=True, addr=8), dict(little=False, addr=4)], expect=('ok',),
      desc='parse_from_attribute returns the expression or the designated list'),
]
