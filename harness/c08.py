"""C08 - relocation tables decode exactly; debug-section relocation follows the psABI."""
from symx.api import H
from harness import c09 as C9
from spec import enc
from spec import elf_layout as L
from spec import relocs as R
from harness.elfkit import Image, stream_length, elf_object, shdr, open_elf

PROPERTY = 'C08'
ASSUMPTIONS = [
    'relocation application is decided on the unit (_do_apply_relocation) with a symbol-table double; the plumbing (section lookup by name, sh_link, get_dwarf_info flag) is checked on generated relocatable images',
    'relocated fields lie inside the section (well-formed)',
    'RELR: bitmap population restricted to the low B bit positions and the top two (the per-bit loop forks); anchors and positions otherwise arbitrary',
]
STUBS = ['SymStream (io.BytesIO)', 'SxPacker (struct.Struct)', 'symbol-table double (num_symbols / get_symbol -> st_value)']
OUTSIDE = ['R_ARM_CALL and BPF relocations (not in the statement)', 'R_MIPS_64 inside ELF32 (n32) objects', 'RELR bitmaps with bits set in the middle positions (B..60 / B..28)', 'more than 3 (quick) / 4 (thorough) RELR words']

ENVS = [(32, True), (32, False), (64, True), (64, False)]


def _Elf(ctx, stream, cls, little, machine='EM_X86_64', arch='x64'):
    return elf_object(ctx, stream if stream is not None else ctx.stream([0] * 4), cls, little, machine, 'ET_REL')


# ------------------------------------------------------------------ H8.1 entry layout
def h_entry(ctx):
    cfg = ctx.cfg
    cls, little, rela, mips = cfg['elfclass'], cfg['little'], cfg['rela'], cfg.get('mips', False)
    U = ctx.lib('common.utils')
    elf = _Elf(ctx, None, cls, little, 'EM_MIPS' if mips else 'EM_X86_64')
    name = 'RELA' if rela else 'REL'
    n = L.sizeof(name, cls)
    cells = ctx.bytes('r', n)
    st = ctx.stream(cells + [0xEE])
    e = U.struct_parse(elf.structs.Elf_Rela if rela else elf.structs.Elf_Rel, st)
    want = L.decode(name, cls, little, cells)
    ctx.outcome('ok')
    ctx.check_eq('rel/consumed', st.tell(), n)
    ctx.check_eq('rel/r_offset', e['r_offset'], want['r_offset'])
    if rela:
        ctx.check_eq('rel/r_addend-signed', e['r_addend'], want['r_addend'])
    if cls == 32:
        ctx.check_eq('rel/r_info', e['r_info'], want['r_info'])
        ctx.check_eq('rel/r_info_sym', e['r_info_sym'], want['r_info'] >> 8)
        ctx.check_eq('rel/r_info_type', e['r_info_type'], want['r_info'] & 0xff)
    elif not mips:
        ctx.check_eq('rel/r_info', e['r_info'], want['r_info'])
        ctx.check_eq('rel/r_info_sym', e['r_info_sym'], want['r_info'] >> 32)
        ctx.check_eq('rel/r_info_type', e['r_info_type'], want['r_info'] & 0xffffffff)
    else:
        # MIPS64: r_sym (word), r_ssym, r_type3, r_type2, r_type (bytes) in this memory order
        info = cells[8:16]
        sym = enc.dec_uint(info[0:4], little)
        ctx.check_eq('rel/mips64/r_sym', e['r_info_sym'], sym)
        ctx.check_eq('rel/mips64/bytes', [e['r_info_ssym'], e['r_info_type3'], e['r_info_type2'], e['r_info_type']], info[4:8])
        ctx.check_eq('rel/mips64/r_info', e['r_info'], (sym << 32) | (info[4] << 24) | (info[5] << 16) | (info[6] << 8) | info[7])


# ------------------------------------------------------------------ H8.2 table addressing
def h_table(ctx):
    cfg = ctx.cfg
    cls, little, rela, k = cfg['elfclass'], cfg['little'], cfg['rela'], cfg['k']
    RL = ctx.lib('elf.relocation')
    name = 'RELA' if rela else 'REL'
    esz = L.sizeof(name, cls)
    A = 32 if cls == 32 else 64
    base = cfg.get('base', 0)
    ents = []
    image = [0xEE] * base
    for i in range(k):
        v = dict(r_offset=ctx.uint('e%d.off' % i, A), r_info=ctx.uint('e%d.info' % i, A), r_addend=ctx.sint('e%d.add' % i, A))
        ents.append(v)
        image += L.encode(name, cls, little, v)
    extra = cfg.get('extra', 0)
    image += [0x11] * extra + [0xEE] * 2
    elf = _Elf(ctx, ctx.stream(image), cls, little)
    if cfg.get('via') == 'section':
        hdr = dict(sh_name=0, sh_type='SHT_RELA' if rela else 'SHT_REL', sh_flags=0, sh_addr=0, sh_offset=base, sh_size=k * esz + extra, sh_link=0, sh_info=0,
                   sh_addralign=8, sh_entsize=esz)
        tab = RL.RelocationSection(hdr, '.rela.x' if rela else '.rel.x', elf)
    else:
        tab = RL.RelocationTable(elf, base, k * esz + extra, rela)
    ctx.outcome('ok')
    ctx.check_eq('table/is_RELA', tab.is_RELA(), rela)
    ctx.check_eq('table/num_relocations', tab.num_relocations(), k)
    got = ctx.walk(lambda: tab.iter_relocations())
    ctx.check_eq('table/count', len(got), k)
    shift, mask = (8, 0xff) if cls == 32 else (32, 0xffffffff)
    for g, w in zip(got, ents):
        ctx.check_eq('table/r_offset', g['r_offset'], w['r_offset'])
        ctx.check_eq('table/r_info_sym', g['r_info_sym'], w['r_info'] >> shift)
        ctx.check_eq('table/r_info_type', g['r_info_type'], w['r_info'] & mask)
        if rela:
            ctx.check_eq('table/r_addend', g['r_addend'], w['r_addend'])
        ctx.check_eq('table/flavour', g.is_RELA(), rela)
    if k:
        n = ctx.int_range('n', 0, k - 1)
        r = tab.get_relocation(n)
        j = ctx.concretize(n)
        ctx.check_eq('table/get_relocation(n)', r['r_offset'], ents[j]['r_offset'])


def h_section_entsize(ctx):
    """a relocation section whose sh_entsize is not the structure size is rejected"""
    cfg = ctx.cfg
    cls, little, rela = cfg['elfclass'], cfg['little'], cfg['rela']
    RL = ctx.lib('elf.relocation')
    EXC = ctx.lib('common.exceptions')
    esz = L.sizeof('RELA' if rela else 'REL', cls)
    ent = ctx.uint('entsize', 16)
    elf = _Elf(ctx, ctx.stream([0] * 64), cls, little)
    hdr = dict(sh_name=0, sh_type='SHT_RELA' if rela else 'SHT_REL', sh_flags=0, sh_addr=0, sh_offset=0, sh_size=esz, sh_link=0, sh_info=0, sh_addralign=8, sh_entsize=ent)
    try:
        RL.RelocationSection(hdr, '.rel.x', elf)
    except EXC.ELFError:
        ctx.outcome('rejected')
        ctx.check('entsize/rejected-only-if-wrong', ent != esz)
        return
    ctx.outcome('ok')
    ctx.check('entsize/accepted-only-if-right', ent == esz)


# ------------------------------------------------------------------ H8.3 RELR
def _ref_relr(ctx, words, wsize):
    """glibc elf_dynamic_do_Relr: -> list of relocated addresses, or None for a leading bitmap"""
    out = []
    where = None
    for w in words:
        if ctx.fork((w & 1) == 0):
            out.append(w)
            where = w + wsize
        else:
            if where is None:
                return None
            bits = w >> 1
            for i in range(8 * wsize - 1):
                if ctx.fork(((bits >> i) & 1) != 0):
                    out.append(where + i * wsize)
            where = where + (8 * wsize - 1) * wsize
    return out


def h_relr(ctx):
    cfg = ctx.cfg
    cls, little, k, B = cfg['elfclass'], cfg['little'], cfg['k'], cfg['B']
    RL = ctx.lib('elf.relocation')
    EXC = ctx.lib('common.exceptions')
    wsize = cls // 8
    W = 8 * wsize
    words = [ctx.uint('w%d' % i, W) for i in range(k)]
    # bitmap words: bits only in positions 1..B and the top two
    allowed = ((1 << (B + 1)) - 1) | (3 << (W - 2))
    for w in words:
        ctx.assume(ctx.lor((w & 1) == 0, (w & ~allowed) == 0))
    base = cfg.get('base', 0)
    image = [0xEE] * base
    for w in words:
        image += enc.enc_int(w, wsize, little)
    image += [0xEE] * 3
    elf = _Elf(ctx, ctx.stream(image), cls, little)
    want = _ref_relr(ctx, words, wsize)
    tab = RL.RelrRelocationTable(elf, base, k * wsize, wsize)
    try:
        got = [r['r_offset'] for r in tab.iter_relocations()]
    except EXC.ELFError:
        ctx.outcome('rejected')
        ctx.check('relr/rejected-only-leading-bitmap', want is None)
        return
    ctx.outcome('ok')
    ctx.check('relr/leading-bitmap-rejected', want is not None)
    if want is None:
        return
    ctx.check_eq('relr/addresses', got, want)
    ctx.check_eq('relr/num_relocations', tab.num_relocations(), len(want))
    if want:
        ctx.check_eq('relr/get_relocation(last)', tab.get_relocation(len(want) - 1)['r_offset'], want[-1])
        # the answers do not depend on the order of the questions: on a fresh table, first one entry by index, then the count, the
        # last entry and the whole enumeration
        tab2 = RL.RelrRelocationTable(elf, base, k * wsize, wsize)
        ctx.check_eq('relr/fresh/get_relocation(0)', tab2.get_relocation(0)['r_offset'], want[0])
        ctx.check_eq('relr/fresh/num_relocations-after-get', tab2.num_relocations(), len(want))
        ctx.check_eq('relr/fresh/get_relocation(last)-after-get', tab2.get_relocation(len(want) - 1)['r_offset'], want[-1])
        ctx.check_eq('relr/fresh/addresses-after-get', [r['r_offset'] for r in tab2.iter_relocations()], want)


def h_relr_entsize(ctx):
    cfg = ctx.cfg
    RL = ctx.lib('elf.relocation')
    EXC = ctx.lib('common.exceptions')
    wsize = cfg['elfclass'] // 8
    ent = ctx.uint('entsize', 8)
    elf = _Elf(ctx, ctx.stream([0] * 16), cfg['elfclass'], True)
    try:
        RL.RelrRelocationTable(elf, 0, 0, ent)
    except EXC.ELFError:
        ctx.outcome('rejected')
        ctx.check('relr/entsize/rejected-only-if-wrong', ent != wsize)
        return
    ctx.outcome('ok')
    ctx.check('relr/entsize/accepted-only-if-right', ent == wsize)


# ------------------------------------------------------------------ H8.4 application
class _SymTab:
    def __init__(self, ctx, values):
        self.ctx = ctx
        self.values = values

    def num_symbols(self):
        return len(self.values)

    def get_symbol(self, i):
        i = self.ctx.concretize(i)
        return {'st_value': self.values[i]}


class _RelSec:
    """a relocation section with the given entries (what RelocationHandler.apply_section_relocations is handed)"""
    def __init__(self, relocs, sh_type):
        self.relocs = relocs
        self.name = '.rela.x' if sh_type == 'SHT_RELA' else '.rel.x'
        self.header = shdr(sh_type=sh_type, sh_link=2, sh_info=1, sh_entsize=24, sh_size=24 * len(relocs))

    def __getitem__(self, k):
        return self.header[k]

    def is_RELA(self):
        return self.header['sh_type'] == 'SHT_RELA'

    def num_relocations(self):
        return len(self.relocs)

    def get_relocation(self, n):
        return self.relocs[n]

    def iter_relocations(self):
        return iter(self.relocs)


def h_apply(ctx):
    cfg = ctx.cfg
    mach, cls, little, rela = cfg['machine'], cfg['elfclass'], cfg['little'], cfg['rela']
    RL = ctx.lib('elf.relocation')
    EXC = ctx.lib('common.exceptions')
    C = ctx.lib('construct')
    code, arch, flavours, table = R.TABLE[mach]
    EN = ctx.lib('elf.enums')
    mname = {v: k for k, v in EN.ENUM_E_MACHINE.items()}[code]
    elf = _Elf(ctx, None, cls, little, mname, arch)
    A = 32 if cls == 32 else 64
    n = 16
    data = ctx.bytes('d', n)
    st = ctx.stream(list(data))
    nsyms = 2
    svals = [ctx.uint('sym%d' % i, A) for i in range(nsyms)]
    symidx = ctx.int_range('r_info_sym', 0, nsyms + 1)
    rtype = ctx.uint('r_info_type', 32 if cls == 64 else 8)
    if 'rtype' in cfg:
        if cfg['rtype'] is None:
            ctx.assume(ctx.land(*[rtype != t for t in table] + [rtype != t for t in R.NOT_IN_STATEMENT.get(mach, ())]))
        else:
            ctx.assume(rtype == cfg['rtype'])
    off = ctx.int_range('r_offset', 0, 8)
    entry = dict(r_offset=off, r_info_sym=symidx, r_info_type=rtype, r_info=0)
    addend = None
    if rela:
        addend = ctx.sint('r_addend', A)
        entry['r_addend'] = addend
    if mach == 'MIPS' and cls == 64:
        entry.update(r_type2=0, r_type3=0, r_ssym=0)
    if mach == 'MIPS' and cls == 32:
        ctx.assume(rtype != 18)       # R_MIPS_64 in an ELF32 object: outside the claim (the library looks at MIPS64-only fields)
    reloc = RL.Relocation(C.Container(**entry), elf)
    handler = RL.RelocationHandler(elf)
    # ---- reference
    flav = 'RELA' if rela else 'REL'
    types = dict(table)
    if mach == 'MIPS' and not rela:
        types = {t: v for t, v in types.items() if t in R.MIPS_REL_TYPES}
    # through the public entry point: a relocation section holding this one entry, linked to the symbol table
    symtab = _SymTab(ctx, svals)
    elf.get_section = lambda n: symtab
    if cfg.get('reuse'):
        # the same handler object first serves another relocation section, linked to ANOTHER symbol table (.rela.dyn -> .dynsym, then
        # .rela.debug_info -> .symtab), with an entry for the same symbol index: each section takes S from the table it links to
        other = _SymTab(ctx, [ctx.uint('osym%d' % i, A) for i in range(nsyms)])
        elf.get_section = lambda n: other if n == 3 else symtab
        first = _RelSec([reloc], 'SHT_RELA' if rela else 'SHT_REL')
        first.header['sh_link'] = 3
        try:
            handler.apply_section_relocations(ctx.stream(list(data)), first)
        except EXC.ELFRelocationError:
            pass
    try:
        handler.apply_section_relocations(st, _RelSec([reloc], 'SHT_RELA' if rela else 'SHT_REL'))
    except EXC.ELFRelocationError:
        ctx.outcome('rejected')
        bad_sym = symidx >= nsyms
        bad_flavour = flav not in flavours
        unsupported = ctx.land(*[rtype != t for t in types])
        ctx.check('apply/%s/rejected-only-for-bad-symbol-flavour-or-type' % mach, ctx.lor(bad_sym, bad_flavour, unsupported))
        ctx.check_eq('apply/%s/rejected-leaves-bytes' % mach, st.getvalue(), ctx.mkbytes(data))
        return
    ctx.outcome('applied')
    ctx.check('apply/%s/symbol-index-in-range' % mach, symidx < nsyms)
    ctx.check('apply/%s/flavour/%s' % (mach, flav), flav in flavours)
    supported = ctx.lor(*[rtype == t for t in types])
    ctx.check('apply/%s/type-supported' % mach, supported)
    t = ctx.concretize(rtype)
    if t not in types or flav not in flavours:
        return
    width, formula = types[t]
    o = ctx.concretize(off)
    after = list(st.getvalue())
    if formula == 'none':
        ctx.check_eq('apply/%s/none' % mach, after, list(data))
        return
    S = ctx.select(svals, symidx) if ctx.is_sym(symidx) else svals[symidx]
    V = enc.dec_uint(data[o:o + width], little)
    Aval = addend if rela else V
    want = R.compute(formula, S, Aval, off, V) & ((1 << (8 * width)) - 1)
    ctx.check_eq('apply/%s/%s/type=%d/field' % (mach, flav, t), after[o:o + width], enc.enc_int(want, width, little))
    ctx.check_eq('apply/%s/other-bytes-unchanged' % mach, after[:o] + after[o + width:], list(data[:o]) + list(data[o + width:]))


# ------------------------------------------------------------------ H8.5 plumbing through a relocatable image
def h_plumbing(ctx):
    cfg = ctx.cfg
    relname, relocate = cfg['relname'], cfg['relocate']
    EF = ctx.lib('elf.elffile')
    img = Image(64, True, machine=62, e_type=1)
    img.section('', sh_type=0)
    # the section header table has no prescribed order: the relocation section may come after its target (what assemblers emit)
    # or before it; it names its target through sh_info and its symbol table through sh_link
    first = cfg.get('order') == 'before'
    # the relocated section: .debug_info by default, or any other section get_dwarf_info hands to DWARFInfo (then .debug_info is a bystander)
    target = cfg.get('target', '.debug_info')
    other = target != '.debug_info'
    names = ['info', 'abbrev', 'strtab', 'symtab'] + (['target'] if other else [])
    names = (['rela'] + names) if first else (names + ['rela'])
    idx = {n: i + 1 for i, n in enumerate(names)}
    tkey = 'target' if other else 'info'
    payload = ctx.bytes('p', 12)
    doff = img.blob(payload)
    ioff = img.blob([0x11] * 12) if other else doff
    abbr = img.blob([0])
    stroff = img.blob([0, 0x61, 0])
    sval = ctx.uint('st_value', 64)
    symoff = img.blob(L.encode('SYM', 64, True, {}) + L.encode('SYM', 64, True, dict(st_name=1, st_value=sval, st_info=0x12, st_shndx=idx[tkey])), align=8)
    addend = ctx.sint('r_addend', 64)
    roff = ctx.int_range('r_offset', 0, 8)
    reloff = img.blob(L.encode('RELA', 64, True, dict(r_offset=roff, r_info=(1 << 32) | 10, r_addend=addend)), align=8)
    defs = dict(
        info=lambda: img.section('.debug_info', sh_type=1, sh_offset=ioff, sh_size=12),
        target=lambda: img.section(target, sh_type=1, sh_offset=doff, sh_size=12),
        abbrev=lambda: img.section('.debug_abbrev', sh_type=1, sh_offset=abbr, sh_size=1),
        strtab=lambda: img.section('.strtab', sh_type=3, sh_offset=stroff, sh_size=3),
        symtab=lambda: img.section('.symtab', sh_type=2, sh_offset=symoff, sh_size=48, sh_entsize=24, sh_link=idx['strtab'], sh_info=1),
        rela=lambda: img.section(relname, sh_type=4, sh_offset=reloff, sh_size=24, sh_entsize=24, sh_link=idx['symtab'], sh_info=idx[tkey]))
    for name in sorted(idx, key=idx.get):
        assert defs[name]() == idx[name]
    img.add_shstrtab()
    elf = open_elf(ctx, img.build())
    if cfg.get('history'):
        # an earlier request with the opposite setting (a tool that first looks at the raw sections, then at the relocated ones,
        # or the other way round): each call answers for its own arguments
        elf.get_dwarf_info(relocate_dwarf_sections=not relocate)
    di = elf.get_dwarf_info(relocate_dwarf_sections=relocate)
    desc = getattr(di, target[1:] + '_sec')
    ctx.check('plumbing/section-handed-over/%s' % target, desc is not None)
    if desc is None:
        ctx.outcome('ok')
        return
    got = list(desc.stream.getvalue())
    ctx.outcome('ok')
    applies = relocate and relname == '.rela' + target
    if not applies:
        ctx.check_eq('plumbing/unchanged/%s/%s' % (relname, relocate), got, list(payload))
    else:
        o = ctx.concretize(roff)
        want = (sval + addend) & 0xffffffff
        ctx.check_eq('plumbing/applied/%s/field' % target, got[o:o + 4], enc.enc_int(want, 4, True))
        ctx.check_eq('plumbing/applied/%s/rest' % target, got[:o] + got[o + 4:], list(payload[:o]) + list(payload[o + 4:]))
    if other:
        ctx.check_eq('plumbing/bystander-section-unchanged', list(di.debug_info_sec.stream.getvalue()), [0x11] * 12)
    ctx.check_eq('plumbing/size', desc.size, 12)
    # the file itself is never modified
    elf.stream.seek(doff)
    ctx.check_eq('plumbing/file-untouched', elf.stream.read(12), ctx.mkbytes(payload))


# every section of the DWARF standard (and the GNU / LSB call-frame section) that get_dwarf_info hands to DWARFInfo: each one is relocated by ITS .rela section
DEBUG_SECTIONS = ['.debug_aranges', '.debug_abbrev', '.debug_frame', '.eh_frame', '.debug_str', '.debug_loc', '.debug_ranges', '.debug_line', '.debug_pubtypes', '.debug_pubnames',
                  '.debug_addr', '.debug_str_offsets', '.debug_line_str', '.debug_loclists', '.debug_rnglists', '.debug_types']


# ------------------------------------------------------------------ instances
def _apply_instances(tier):
    out = []
    for mach, (code, arch, flavours, table) in R.TABLE.items():
        classes = {'x86': (32,), 'ARM': (32,), 'x64': (64, 32), 'AArch64': (64, 32), 'PPC64': (64,), 'S390x': (64,), 'LoongArch': (64, 32), 'MIPS': (32, 64)}[mach]      # 32: the x32, ILP32 and LA32 ABIs
        orders = {'PPC64': (False, True), 'S390x': (False,), 'MIPS': (False, True), 'ARM': (True, False)}.get(mach, (True,))
        for cls in classes:
            for little in orders:
                for rela in (False, True):
                    for t in sorted(table) + [None]:
                        if mach == 'MIPS' and cls == 32 and t == 18:
                            continue
                        out.append(dict(machine=mach, elfclass=cls, little=little, rela=rela, rtype=t))
                        if t is not None and t == sorted(table)[-1] and (('RELA' if rela else 'REL') in flavours):
                            out.append(dict(machine=mach, elfclass=cls, little=little, rela=rela, rtype=t, reuse=True))
    return out


def _relr_instances(tier):
    B = 6 if tier == 'quick' else 8
    out = []
    for cls, little in ((64, True), (32, False)) if tier == 'quick' else ENVS:
        for k in (0, 1, 2, 3) + ((4,) if tier == 'thorough' else ()):
            out.append(dict(elfclass=cls, little=little, k=k, B=B if k < 3 else (2 if tier == 'quick' or k == 4 else 3), base=4 if k == 1 else 0))
    return out


TIER_PARAMS = {'quick': {'conc_cap': 300}, 'thorough': {'conc_cap': 600, 'deadline_s': 5400}}

HARNESSES = [
    H('h8_1_entry', h_entry, lambda tier: [dict(elfclass=c, little=l, rela=r) for c, l in ENVS for r in (False, True)] +
      [dict(elfclass=64, little=l, rela=r, mips=True) for l in (True, False) for r in (False, True)], expect=('ok',),
      desc='Elf_Rel / Elf_Rela of fully symbolic bytes: r_offset, r_info split per class, signed r_addend; MIPS64 packed info layout and synthesised r_info'),
    H('h8_2_table', h_table, lambda tier: [dict(elfclass=c, little=l, rela=r, k=k, base=b, extra=x, via=v) for c, l in ENVS for r in (False, True)
                                           for (k, b, x, v) in ((0, 0, 0, 'table'), (2, 5, 0, 'table'), (2, 0, 3, 'table'), (3, 8, 0, 'section'))], expect=('ok',),
      desc='RelocationTable / RelocationSection: num_relocations = size // entry size, entries in order with symbolic field values, get_relocation(n) with symbolic n'),
    H('h8_2_entsize', h_section_entsize, lambda tier: [dict(elfclass=c, little=True, rela=r) for c in (32, 64) for r in (False, True)], expect=('ok', 'rejected'),
      desc='RelocationSection accepts exactly sh_entsize == structure size (symbolic sh_entsize)'),
    H('h8_3_relr', h_relr, _relr_instances, expect=('ok', 'rejected'),
      desc='RelrRelocationTable.iter_relocations on k symbolic words (anchors arbitrary, bitmap bits in the low B and top 2 positions): address sequence equals the RELR decoder of glibc; leading bitmap rejected'),
    H('h8_3_relr_entsize', h_relr_entsize, lambda tier: [dict(elfclass=32), dict(elfclass=64)], expect=('ok', 'rejected'), desc='RELR entry size check'),
    H('h8_4_apply', h_apply, _apply_instances, expect=('applied', 'rejected'),
      desc='_do_apply_relocation on a 16-byte symbolic section: per machine x class x byte order x REL/RELA x each supported type and "any other type" (symbolic): '
           'field = psABI formula mod 2^width, every other byte unchanged; unsupported type / wrong flavour / symbol index out of range -> ELFRelocationError with the bytes untouched',
      bounds={'all': 'symbol value, addend, in-place bytes symbolic at full width; r_offset 0..8; symbol index 0..3 over a 2-entry table'}),
    H('h8_6_dynamic_tables', C9.h_dynamic, lambda tier: [c for c in C9._instances(tier) if (c.get('both_flavours') or c.get('relr')) and (tier == 'thorough' or (c['elfclass'] == 64) == bool(c.get('relr')))],
      expect=('ok',),
      desc='the relocation tables reached through the dynamic array (DT_REL / DT_RELA / DT_JMPREL; objects carrying BOTH flavours; pointers mapped through two PT_LOAD segments), '
           'section view and segment view (harness shared with C09)'),
    H('h8_5_plumbing', h_plumbing, lambda tier: [dict(relname=n, relocate=r, order=o) for n in ('.rela.debug_info', '.rela.debug_infoX', '.rela.text') for r in (True, False) for o in ('after', 'before')] +
                                                  [dict(relname='.rela.debug_info', relocate=r, order='after', history=True) for r in (True, False)] +
                                                  [dict(relname='.rela' + t, target=t, relocate=r, order=o) for t in DEBUG_SECTIONS for r, o in ((True, 'after'), (True, 'before'), (False, 'after'))], expect=('ok',),
      desc='generated relocatable x86-64 image: get_dwarf_info(relocate_dwarf_sections) applies exactly the .rela<name> section to the copy handed to DWARFInfo and never touches the file'),
]
