"""C09 - dynamic linking information is exact, with or without section headers."""
from symx.api import H
from spec import enc
from spec import elf_layout as L
from spec import registry as REG
from harness.c03 import hash_word_size
from harness.elfkit import Image, machines_of_interest, open_elf

PROPERTY = 'C09'
ASSUMPTIONS = [
    'images are generated from one template instantiated three ways: with section headers, with section headers removed (e_shoff = e_shnum = 0), and with a .dynamic section whose offset differs from the segment',
    'the load address of the single PT_LOAD segment, all string offsets of string-valued tags, symbol values, relocation entries and one free (tag, value) pair are symbolic',
    'hash tables present in the image are valid (C03 decides the lookups themselves)',
]
STUBS = ['SymStream (io.BytesIO)', 'SxPacker (struct.Struct)']
OUTSIDE = ['symbol count recovery when no hash table exists (heuristic; the statement conditions on a hash table)', 'more than 3 dynamic symbols / 2 relocation entries per table',
           'PT_LOAD layouts other than one segment / two segments adjacent in memory with the tables at the start of the second (address_offsets itself is C02)']

DT = dict(NULL=0, NEEDED=1, PLTRELSZ=2, HASH=4, STRTAB=5, SYMTAB=6, RELA=7, RELASZ=8, RELAENT=9, STRSZ=10, SYMENT=11, SONAME=14, RPATH=15, REL=17, RELSZ=18, RELENT=19,
          PLTREL=20, JMPREL=23, RUNPATH=29, RELRSZ=35, RELR=36, RELRENT=37, GNU_HASH=0x6ffffef5, FLAGS_1=0x6ffffffb)
DYNSTR = [0] + list('libc.so.6\0li\u00f6.so\0/\u00f6pt/li\0f\0gg\0'.encode('utf-8'))      # dynamic strings are UTF-8 text (same offsets as an ASCII table would have)
STARTS = [1, 11, 19, 28, 30, 0, 5]
SYMNAMES = [0, 28, 30]         # '', 'f', 'gg'


def _s(o):
    e = o
    while DYNSTR[e] != 0:
        e += 1
    return bytes(DYNSTR[o:e]).decode('utf-8')


def _template(ctx, cfg):
    """-> (image bytes, expectations)"""
    cls, little, variant = cfg['elfclass'], cfg['little'], cfg['variant']
    A = 32 if cls == 32 else 64
    V = ctx.uint('load_vaddr', 32 if cls == 64 else 18) * 0x1000           # page aligned load address (inside the class's address space)
    mach = 62 if cls == 64 else 3
    if cfg.get('machine'):
        mach = sorted(REG.values(cfg['machine']))[0]
    img = Image(cls, little, machine=mach, e_type=3)
    split = cfg.get('layout') == 'split'
    if split:
        # two PT_LOAD segments adjacent in memory but not in the file: the first maps the file up to X, then come 24 bytes that are
        # not loaded, and the second segment starts exactly with the dynamic string table, i.e. at the address one past the first
        # segment's end (a pointer equal to p_vaddr + p_filesz of the FIRST segment belongs to the second)
        X = img.blob([0x7a] * 23 + [0])
    stroff = img.blob(DYNSTR)
    SYMN = [0, 30, 30] if cfg.get('dupnames') else SYMNAMES      # dupnames: two dynamic symbols share a name (foo@V1 / foo@@V2)
    k = len(SYMN)
    symsz = L.sizeof('SYM', cls)
    svals = [0] + [ctx.uint('sym%d.value' % i, A) for i in range(1, k)]
    symoff = img.blob(sum([L.encode('SYM', cls, little, dict(st_name=SYMN[i], st_value=svals[i], st_info=0x12, st_shndx=1 if i else 0)) for i in range(k)], []), align=8)
    w = lambda v: enc.enc_int(v, 4, little)
    hashoff = None
    gnuoff = None
    if cfg['hash'] in ('sysv', 'both'):
        hw = lambda v: enc.enc_int(v, hash_word_size(cfg.get('machine', 'EM_X86_64'), cls), little)       # 64-bit words on 64-bit Alpha / s390x
        hashoff = img.blob(hw(1) + hw(k) + hw(2) + hw(0) + hw(0) + hw(1), align=8)          # bucket0 -> 2 -> 1 -> 0
    if cfg['hash'] in ('gnu', 'both'):
        # symoffset 1, one bucket, bloom all ones, chains: hashes with the end bit on the last
        gnuoff = img.blob(w(1) + w(1) + w(1) + w(0) + [0xff] * (cls // 8) + w(1) + w(0x1234 & ~1) + w(0x5678 | 1), align=8)
    addr = (lambda o: V + X + (o - stroff)) if split else (lambda o: V + o)
    rela = cfg.get('rela', True)
    rname = 'RELA' if rela else 'REL'
    rsz = L.sizeof(rname, cls)
    rels = [dict(r_offset=ctx.uint('rel%d.off' % i, A), r_info=ctx.uint('rel%d.info' % i, A), r_addend=ctx.sint('rel%d.add' % i, A)) for i in range(2)]
    reloff = img.blob(sum([L.encode(rname, cls, little, r) for r in rels], []), align=8)
    jmp = [dict(r_offset=ctx.uint('jmp0.off', A), r_info=ctx.uint('jmp0.info', A), r_addend=ctx.sint('jmp0.add', A))]
    jmpoff = img.blob(sum([L.encode(rname, cls, little, r) for r in jmp], []), align=8)
    # ---- dynamic table
    # one string-valued tag per instance has a symbolic offset (over string starts and mid-string offsets), the others are fixed
    sel = [ctx.int_range('str%d' % i, 0, len(STARTS) - 1) if i == cfg.get('symstr', 0) else [0, 1, 2, 4][i] for i in range(4)]
    sv = [ctx.select(STARTS, s) for s in sel]
    free_tag = ctx.sint('free.tag', A)
    free_val = ctx.uint('free.val', A)
    # the value of the terminating entry is ignored by the gABI ("d_un: ignored"): any value, the tag alone ends the array
    null_val = ctx.uint('null.val', A)
    ctx.assume(ctx.land(free_tag != 12, *[free_tag != t for t in DT.values()]))      # 12 = DT_INIT, queried as the absent table
    tags = [(DT['NEEDED'], sv[0]), (DT['NEEDED'], sv[1]), (DT['SONAME'], sv[2]), (DT['RPATH' if cfg.get('rpath', True) else 'RUNPATH'], sv[3]),
            (DT['STRTAB'], addr(stroff)), (DT['STRSZ'], len(DYNSTR)), (DT['SYMTAB'], addr(symoff)), (DT['SYMENT'], symsz)]
    if hashoff is not None:
        tags.append((DT['HASH'], addr(hashoff)))
    if gnuoff is not None:
        tags.append((DT['GNU_HASH'], addr(gnuoff)))
    relr = None
    if cfg.get('relr'):
        # a RELR table: one anchor (symbolic, even) and one bitmap naming the next word
        wsz = cls // 8
        anchor = ctx.uint('relr.anchor', A) & ~1
        relroff = img.blob(enc.enc_int(anchor, wsz, little) + enc.enc_int(3, wsz, little), align=8)
        tags += [(DT['RELR'], addr(relroff)), (DT['RELRSZ'], 2 * wsz), (DT['RELRENT'], wsz)]
        relr = [anchor, anchor + wsz]
    other = None
    if cfg.get('both_flavours'):
        # a second table of the OTHER flavour (the gABI permits both in one object): one entry
        oname = 'REL' if rela else 'RELA'
        osz = L.sizeof(oname, cls)
        other = [dict(r_offset=ctx.uint('orel.off', A), r_info=ctx.uint('orel.info', A), r_addend=ctx.sint('orel.add', A))]
        ooff = img.blob(L.encode(oname, cls, little, other[0]), align=8)
        tags += [(DT[oname], addr(ooff)), (DT[oname + 'SZ'], osz), (DT[oname + 'ENT'], osz)]
    tags += [(DT[rname], addr(reloff)), (DT[rname + 'SZ'], 2 * rsz), (DT[rname + 'ENT'], rsz),
             (DT['JMPREL'], addr(jmpoff)), (DT['PLTRELSZ'], rsz), (DT['PLTREL'], DT[rname]), (free_tag, free_val), (DT['NULL'], null_val)]
    after_null = [(DT['NEEDED'], 1), (DT['NULL'], 0)]
    dynsz = L.sizeof('DYN', cls)
    dynoff = img.blob(sum([L.encode('DYN', cls, little, dict(d_tag=t, d_val=v)) for t, v in tags + after_null], []), align=8)
    dyn_filesz = (len(tags) + len(after_null)) * dynsz
    secdyn_off = dynoff
    if variant == 'shifted':
        # the .dynamic section designates a second copy placed elsewhere
        secdyn_off = img.blob(sum([L.encode('DYN', cls, little, dict(d_tag=t, d_val=v)) for t, v in tags + after_null], []), align=8)
    total_guess = img.here() + 4096
    if split:
        img.segment(p_type=1, p_offset=0, p_vaddr=V, p_paddr=V, p_filesz=X, p_memsz=X, p_flags=5, p_align=0x1000)
        # the gABI orders the loadable entries among themselves only: another entry may sit between them
        img.segment(p_type=0x6474e551, p_offset=0, p_vaddr=0, p_paddr=0, p_filesz=0, p_memsz=0, p_flags=6, p_align=16)
        img.segment(p_type=1, p_offset=stroff, p_vaddr=V + X, p_paddr=V + X, p_filesz=total_guess, p_memsz=total_guess, p_flags=6, p_align=0x1000)
    else:
        img.segment(p_type=1, p_offset=0, p_vaddr=V, p_paddr=V, p_filesz=total_guess, p_memsz=total_guess, p_flags=5, p_align=0x1000)
    img.segment(p_type=2, p_offset=dynoff, p_vaddr=addr(dynoff), p_paddr=addr(dynoff), p_filesz=dyn_filesz, p_memsz=dyn_filesz, p_flags=6, p_align=8)
    if variant != 'stripped':
        img.section('', sh_type=0)
        img.section('.dynstr', sh_type=3, sh_offset=stroff, sh_size=len(DYNSTR), sh_addr=addr(stroff), sh_flags=2)                       # 1
        img.section('.dynsym', sh_type=11, sh_offset=symoff, sh_size=k * symsz, sh_entsize=symsz, sh_link=1, sh_addr=addr(symoff))     # 2
        if variant != 'nodynsec':
            img.section('.dynamic', sh_type=6, sh_offset=secdyn_off, sh_size=dyn_filesz, sh_entsize=dynsz, sh_link=1, sh_addr=addr(secdyn_off))  # 3
        if cfg.get('decoy_dynstr'):
            # section names need not be unique: a second, unrelated string table that is also called .dynstr (the table the dynamic
            # entries use is the one designated by sh_link / DT_STRTAB, never one found by name)
            decoy = [0] + [0x7a] * (len(DYNSTR) - 2) + [0]
            img.section('.dynstr', sh_type=3, sh_offset=img.blob(decoy), sh_size=len(decoy))
        img.add_shstrtab()
    # e_phentsize may exceed the size of the structure (entries padded): the program header table is walked with that stride
    data = img.build(phentsize=L.sizeof('PHDR', cls) + cfg['phslack']) if cfg.get('phslack') else img.build()
    exp = dict(tags=tags, sel=sel, svals=svals, rels=rels, jmp=jmp, rela=rela, other=other, relr=relr, k=k, free=(free_tag, free_val), V=V, addr=addr,
               offs=dict(str=stroff, sym=symoff, rel=reloff, jmp=jmpoff, dyn=dynoff))
    return data, exp


def _tag_ok(ctx, label, got, raw):
    conds = []
    for cond, obj in ctx.alternatives(got):
        if isinstance(obj, str):
            acc = REG.values(obj)
            if acc:
                conds.append(ctx.implies(cond, ctx.lor(*[raw == a for a in sorted(acc)])))
        else:
            conds.append(ctx.implies(cond, ctx.eq(obj, raw)))
    ctx.check(label, ctx.land(*conds))


def _check_dynamic(ctx, dyn, exp, label):
    tags = exp['tags']
    got = ctx.walk(lambda: dyn.iter_tags())
    ctx.check_eq(label + '/tag-count (up to and including the first DT_NULL)', len(got), len(tags))
    ctx.check_eq(label + '/num_tags', dyn.num_tags(), len(tags))
    if len(got) != len(tags):
        return
    strs = [_s(STARTS[ctx.concretize(s)]) for s in exp['sel']]
    for i, (g, (t, v)) in enumerate(zip(got, tags)):
        _tag_ok(ctx, label + '/d_tag/name-or-raw', g.entry.d_tag, t)
        ctx.check_eq(label + '/d_val', g.entry.d_val, v)
        ctx.check_eq(label + '/d_ptr', g.entry.d_ptr, v)
    ctx.check_eq(label + '/needed', [got[0].needed, got[1].needed], strs[:2])
    ctx.check_eq(label + '/soname', got[2].soname, strs[2])
    r = got[3]
    ctx.check_eq(label + '/rpath-or-runpath', r.rpath if r.entry.d_tag == 'DT_RPATH' else r.runpath, strs[3])
    ctx.check_eq(label + '/get_tag(2)', dyn.get_tag(2).soname, strs[2])
    # typed iteration
    ctx.check_eq(label + '/iter_tags(DT_NEEDED)', [t.needed for t in dyn.iter_tags('DT_NEEDED')], strs[:2])
    # relocation tables
    tabs = dyn.get_relocation_tables()
    rname = 'RELA' if exp['rela'] else 'REL'
    oname = 'REL' if exp['rela'] else 'RELA'
    want_tabs = sorted([rname, 'JMPREL'] + ([oname] if exp.get('other') else []) + (['RELR'] if exp.get('relr') else []))
    if exp.get('relr') and 'RELR' in tabs:
        mask = (1 << (64 if exp['V'] is None else 64)) - 1
        ctx.check_eq(label + '/reloc/RELR/addresses', [r['r_offset'] for r in tabs['RELR'].iter_relocations()], exp['relr'])
        ctx.check_eq(label + '/reloc/RELR/num', tabs['RELR'].num_relocations(), 2)
    ctx.check_eq(label + '/reloc-tables', sorted(tabs), want_tabs)
    if exp.get('other') and oname in tabs:
        tab = tabs[oname]
        ctx.check_eq(label + '/reloc/other-flavour/num', tab.num_relocations(), 1)
        ctx.check_eq(label + '/reloc/other-flavour/flavour', tab.is_RELA(), not exp['rela'])
        g = tab.get_relocation(0)
        ctx.check_eq(label + '/reloc/other-flavour/r_offset', g['r_offset'], exp['other'][0]['r_offset'])
        if not exp['rela']:
            ctx.check_eq(label + '/reloc/other-flavour/r_addend', g['r_addend'], exp['other'][0]['r_addend'])
    if sorted(tabs) == want_tabs:
        for key, want in ((rname, exp['rels']), ('JMPREL', exp['jmp'])):
            tab = tabs[key]
            ctx.check_eq(label + '/reloc/%s/num' % key, tab.num_relocations(), len(want))
            ctx.check_eq(label + '/reloc/%s/flavour' % key, tab.is_RELA(), exp['rela'])
            for g, w in zip(tab.iter_relocations(), want):
                ctx.check_eq(label + '/reloc/%s/r_offset' % key, g['r_offset'], w['r_offset'])
                if exp['rela']:
                    ctx.check_eq(label + '/reloc/%s/r_addend' % key, g['r_addend'], w['r_addend'])
    ptr, off = dyn.get_table_offset('DT_SYMTAB')
    ctx.check_eq(label + '/get_table_offset', [ptr, off], [exp['addr'](exp['offs']['sym']), exp['offs']['sym']])
    ctx.check_eq(label + '/get_table_offset/absent', dyn.get_table_offset('DT_INIT'), (None, None))


def h_dynamic(ctx):
    cfg = ctx.cfg
    EF = ctx.lib('elf.elffile')
    data, exp = _template(ctx, cfg)
    elf = open_elf(ctx, data)
    seg = [s for s in elf.iter_segments() if type(s).__name__ == 'DynamicSegment']
    ctx.outcome('ok')
    ctx.check_eq('dynamic/segment-found', len(seg), 1)
    if len(seg) != 1:
        return
    seg = seg[0]
    variant = cfg['variant']
    _check_dynamic(ctx, seg, exp, 'segment/%s' % variant)
    # dynamic symbols through the segment
    n = seg.num_symbols()
    ctx.check_eq('segment/%s/num_symbols/%s' % (variant, cfg['hash']), n, exp['k'])
    syms = ctx.walk(lambda: seg.iter_symbols())
    SYMN = [0, 30, 30] if cfg.get('dupnames') else SYMNAMES
    ctx.check_eq('segment/symbols', [(s.name, s['st_value']) for s in syms], [(_s(SYMN[i]), exp['svals'][i]) for i in range(exp['k'])])
    r = seg.get_symbol_by_name('gg')
    # by name: exactly the symbols bearing the name, all of them, in table order
    ctx.check_eq('segment/get_symbol_by_name', None if r is None else [(x.name, x['st_value']) for x in r], [('gg', exp['svals'][i]) for i in range(exp['k']) if SYMN[i] == 30])
    ctx.check('segment/get_symbol_by_name/absent', seg.get_symbol_by_name('nope') is None)
    if variant != 'stripped':
        sec = elf.get_section_by_name('.dynamic')
        if variant == 'nodynsec':
            ctx.check('section/absent', sec is None)
        else:
            ctx.check('section/present', sec is not None and type(sec).__name__ == 'DynamicSection')
        if sec is not None:
            _check_dynamic(ctx, sec, exp, 'section/%s' % variant)
            # section view == segment view, entry for entry
            a = [(ctx.concretize_tag(t.entry.d_tag) if hasattr(ctx, 'concretize_tag') else t.entry.d_tag, t.entry.d_val) for t in sec.iter_tags()]
            b = [(t.entry.d_tag, t.entry.d_val) for t in seg.iter_tags()]
            ctx.check_eq('views/same-length', len(a), len(b))
            ctx.check_eq('views/same-values', [x[1] for x in a], [x[1] for x in b])
        dsym = elf.get_section_by_name('.dynsym')
        ctx.check_eq('views/symbols', [(s.name, s['st_value']) for s in dsym.iter_symbols()], [(s.name, s['st_value']) for s in syms])
        r2 = dsym.get_symbol_by_name('gg')
        ctx.check_eq('views/get_symbol_by_name', None if r2 is None else [(x.name, x['st_value']) for x in r2], None if r is None else [(x.name, x['st_value']) for x in r])
    else:
        ctx.check_eq('stripped/no-sections', elf.num_sections(), 0)


def h_free_tag(ctx):
    """machine / OS specific tag tables: one fully symbolic tag value per machine setting"""
    cfg = ctx.cfg
    U = ctx.lib('common.utils')
    S = ctx.lib('elf.structs')
    cls, little = cfg['elfclass'], cfg['little']
    st = S.ELFStructs(little_endian=little, elfclass=cls)
    st.create_basic_structs()
    st.create_advanced_structs('ET_DYN', cfg['machine'], cfg['osabi'])
    n = L.sizeof('DYN', cls)
    cells = ctx.bytes('d', n)
    e = U.struct_parse(st.Elf_Dyn, ctx.stream(cells))
    want = L.decode('DYN', cls, little, cells)
    ctx.outcome('ok')
    ctx.check_eq('dyn/d_val', e['d_val'], want['d_val'])
    ctx.check_eq('dyn/d_ptr', e['d_ptr'], want['d_val'])
    conds = []
    mach_prefix = {'EM_MIPS': 'DT_MIPS_', 'EM_AARCH64': 'DT_AARCH64_', 'EM_PPC': 'DT_PPC_', 'EM_PPC64': 'DT_PPC64_'}
    for cond, obj in ctx.alternatives(e['d_tag']):
        if isinstance(obj, str):
            acc = REG.values(obj)
            if acc:
                conds.append(ctx.implies(cond, ctx.lor(*[want['d_tag'] == a for a in sorted(acc)])))
            foreign = [p for m, p in mach_prefix.items() if obj.startswith(p) and m != cfg['machine']]
            conds.append(ctx.implies(cond, not foreign))
            if obj.startswith('DT_SUNW_'):
                conds.append(ctx.implies(cond, cfg['osabi'] == 'ELFOSABI_SOLARIS'))
        else:
            conds.append(ctx.implies(cond, ctx.eq(obj, want['d_tag'])))
    ctx.check('dyn/d_tag/name-of-the-right-namespace-or-raw/%s/%s' % (cfg['machine'], cfg['osabi']), ctx.land(*conds))


def _instances(tier):
    out = []
    envs = [(64, True), (32, False)] if tier == 'quick' else [(64, True), (32, False), (64, False), (32, True)]
    for cls, little in envs:
        for variant in ('sections', 'stripped', 'shifted'):
            for hsh in ('sysv', 'gnu') + (('both',) if tier == 'thorough' else ()):
                for symstr in ((0, 2) if tier == 'quick' else (0, 1, 2, 3)):
                    out.append(dict(elfclass=cls, little=little, variant=variant, hash=hsh, rela=(cls == 64), rpath=(hsh == 'sysv'), symstr=symstr))
        # every machine the library's code mentions (it may lay out hash tables, dynamic entries or symbols specially there), both
        # classes and byte orders spread over the list
        for i, m in enumerate(sorted(set(machines_of_interest()) | {'EM_ALPHA', 'EM_S390'})):
            if REG.values(m):
                for hsh in ('sysv', 'gnu'):
                    out.append(dict(elfclass=cls, little=(little if i % 2 else not little), variant='stripped', hash=hsh, rela=(cls == 64), rpath=True, symstr=0, machine=m))
    for cls, little in envs:
        for variant in ('sections', 'stripped', 'shifted'):
            # two PT_LOAD segments, the dynamic tables at the very start of the second one
            out.append(dict(elfclass=cls, little=little, variant=variant, hash='gnu' if cls == 64 else 'sysv', rela=(cls == 64), rpath=True, symstr=1, layout='split'))
        out.append(dict(elfclass=cls, little=little, variant='stripped', hash='sysv', rela=(cls == 64), rpath=True, symstr=0, phslack=8))
        for variant in ('sections', 'shifted', 'nodynsec'):
            out.append(dict(elfclass=cls, little=little, variant=variant, hash='sysv' if cls == 64 else 'gnu', rela=(cls == 64), rpath=True, symstr=0, decoy_dynstr=True))
        out.append(dict(elfclass=cls, little=little, variant='nodynsec', hash='gnu' if cls == 64 else 'sysv', rela=(cls == 64), rpath=True, symstr=1))
        out.append(dict(elfclass=cls, little=little, variant='stripped', hash='gnu', rela=(cls == 64), rpath=True, symstr=0, dupnames=True))
        out.append(dict(elfclass=cls, little=little, variant='sections', hash='sysv', rela=(cls == 64), rpath=True, symstr=0, dupnames=True))
        out.append(dict(elfclass=cls, little=little, variant='stripped', hash='gnu', rela=True, rpath=True, symstr=0, both_flavours=True))
        out.append(dict(elfclass=cls, little=little, variant='sections', hash='gnu', rela=(cls == 64), rpath=True, symstr=0, relr=True))
        out.append(dict(elfclass=cls, little=little, variant='stripped', hash='sysv', rela=(cls == 64), rpath=True, symstr=0, relr=True, layout='split'))
        out.append(dict(elfclass=cls, little=little, variant='sections', hash='sysv', rela=False, rpath=True, symstr=0, both_flavours=True))
        out.append(dict(elfclass=cls, little=little, variant='sections', hash='gnu', rela=(cls == 64), rpath=True, symstr=0, phslack=24, layout='split'))
    return out


TIER_PARAMS = {'quick': {'conc_cap': 300}, 'thorough': {'conc_cap': 600}}

HARNESSES = [
    H('h9_1_dynamic', h_dynamic, _instances, expect=('ok',),
      desc='generated shared-object images (with section headers / stripped / .dynamic section at a different offset): tag walk up to and including the first DT_NULL (entries follow it), '
           'num_tags, string tags through sh_link and through DT_STRTAB over a symbolic load address, typed iteration, REL/RELA/JMPREL tables, get_table_offset, dynamic symbols and '
           'count recovery through SysV / GNU hash tables; section view equals segment view'),
    H('h9_1_free_tag', h_free_tag, lambda tier: [dict(elfclass=c, little=l, machine=m, osabi=o) for c, l in ((64, True), (32, False))
                                                 for m, o in (('EM_X86_64', 'ELFOSABI_SYSV'), ('EM_MIPS', 'ELFOSABI_SYSV'), ('EM_AARCH64', 'ELFOSABI_SYSV'),
                                                              ('EM_SPARC', 'ELFOSABI_SOLARIS'), ('EM_PPC64', 'ELFOSABI_SYSV'), ('EM_ARM', 'ELFOSABI_SYSV'))], expect=('ok',),
      desc='Elf_Dyn of fully symbolic bytes per machine / OS ABI: signed d_tag decoded to a registry name of the right namespace or the raw number; d_val / d_ptr'),
]
