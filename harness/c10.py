"""C10 - answers do not depend on query history or stream position."""
from symx.api import H
from spec import enc
from spec import elf_layout as L
from harness.dwarfkit import mk_dwarfinfo, unit_header, abbrev_table
from harness.elfkit import Image
from harness import c04 as T
from harness import c05 as LP5
from harness import c08 as C8
from harness import c06 as C6

PROPERTY = 'C10'
ASSUMPTIONS = [
    'the property quantifies over call histories; it is decided as solver-checked lemmas whose conjunction implies it (DESIGN.md 4/C10): '
    'L1 every cache-insertion step preserves the representation invariant from an ARBITRARY valid cache state, '
    'L2 every operation of the alphabet is independent of the position the shared streams were left at (symbolic initial positions), '
    'L3 memo tables pre-populated with any subset of keys give the cold answer, '
    'L4 navigation links filled in by earlier traversals (complete, abandoned, sibling-shortcut, random access) do not change parent/children answers',
    'L1 cache invariant: parallel lists, offsets strictly increasing, first entry is the top entry (per-unit cache); objects carry their offset',
    'composition (informal): a history is a sequence of operations; by L2 each operation sees the same bytes wherever the streams are, by L1/L3 the caches it consults '
    'return the same objects/values as a cold parse, by L4 the links it follows are the ones a cold traversal computes',
]
STUBS = ['SymStream (io.BytesIO) with a symbolic current position', 'harness entry/unit doubles that carry their offset (L1)', 'SxPacker']
OUTSIDE = ['interleavings beyond the schedule templates of L4 (iterators abandoned at one point, then one more traversal)', 'fixture files larger than ~600 bytes', 'caches with more than 4/5 entries in L1']


# ------------------------------------------------------------------ L1 cache steps
class _Obj:
    def __init__(self, offset):
        self.offset = offset
        self.cu_offset = offset
        self.stream = None


def _sorted_offsets(ctx, k, bits=24):
    offs = [ctx.uint('o%d' % i, bits) for i in range(k)]
    for a, b in zip(offs, offs[1:]):
        ctx.assume(a < b)
    return offs


def h_cu_cache_step(ctx):
    k = ctx.cfg['k']
    DI = ctx.lib('dwarf.dwarfinfo')
    di, _ = mk_dwarfinfo(ctx, True, 8, debug_info=[0] * 4, debug_abbrev=[0])
    offs = _sorted_offsets(ctx, k)
    objs = [_Obj(o) for o in offs]
    di._cu_offsets_map = list(offs)
    di._cu_cache = list(objs)
    req = ctx.uint('request', 24)
    made = []

    def parser(offset):
        o = _Obj(offset)
        made.append(o)
        return o
    di._parse_CU_at_offset = parser
    got = di._cached_CU_at_offset(req)
    ctx.outcome('hit' if not made else 'miss')
    ctx.check('L1/cu/returned-object-has-the-requested-offset', got.offset == req)
    present = ctx.lor(*[o == req for o in offs]) if offs else False
    ctx.check('L1/cu/parsed-iff-absent', ctx.iff(bool(made), ctx.lnot(present)))
    if not made:
        ctx.check('L1/cu/hit-returns-the-identical-object', any(got is o for o in objs))
    m, c = di._cu_offsets_map, di._cu_cache
    ctx.check_eq('L1/cu/parallel-lists', len(m), len(c))
    ctx.check('L1/cu/sorted-and-duplicate-free', ctx.land(*[a < b for a, b in zip(m, m[1:])]))
    ctx.check('L1/cu/objects-match-offsets', ctx.land(*[x.offset == y for x, y in zip(c, m)]))
    ctx.check_eq('L1/cu/size', len(m), k + (1 if made else 0))
    ctx.check('L1/cu/old-entries-kept', all(any(o is x for x in c) for o in objs))
    # the same request again is a hit on the identical object
    n = len(made)
    again = di._cached_CU_at_offset(req)
    ctx.check('L1/cu/repeat-is-identical', again is got and len(made) == n)


class _S4:
    def initial_length_field_size(self):
        return 4


class _Unit(_Obj):
    """unit double: offset, size, header access and structs as DWARFInfo's unit search uses them"""
    structs = _S4()

    def __init__(self, offset, size):
        _Obj.__init__(self, offset)
        self.size = size

    def __getitem__(self, k):
        assert k == 'unit_length'
        return self.size - 4


def h_cu_containing_step(ctx):
    """get_CU_containing from an ARBITRARY valid cache state (any subset of the units already cached, in particular sparse ones)"""
    cfg = ctx.cfg
    k, mask = cfg['k'], cfg['mask']
    sizes = [ctx.int_range('size%d' % i, 11, 4000) for i in range(k)]
    starts = [0]
    for z in sizes[:-1]:
        starts.append(starts[-1] + z)
    total = starts[-1] + sizes[-1]
    di, _ = mk_dwarfinfo(ctx, True, 8, debug_info=[0] * 4, debug_abbrev=[0])
    di.debug_info_sec = di.debug_info_sec._replace(size=total)
    units = [_Unit(starts[i], sizes[i]) for i in range(k)]
    cached = [i for i in range(k) if mask >> i & 1]
    di._cu_offsets_map = [starts[i] for i in cached]
    di._cu_cache = [units[i] for i in cached]
    made = []

    def parser(offset):
        for i in range(k):
            if ctx.fork(offset == starts[i]):
                made.append(i)
                return units[i]
        raise AssertionError('a unit is parsed at an offset where none starts')
    di._parse_CU_at_offset = parser
    ref = ctx.uint('refaddr', 16)
    ctx.assume(ref < total)
    got = di.get_CU_containing(ref)
    ctx.outcome('found')
    ctx.check('L1/containing/unit-contains-the-offset', ctx.land(got.cu_offset <= ref, ref < got.cu_offset + got.size))
    ctx.check('L1/containing/is-one-of-the-units', any(got is u for u in units))
    m, c = di._cu_offsets_map, di._cu_cache
    ctx.check('L1/containing/cache-sorted-and-duplicate-free', ctx.land(*[a < b for a, b in zip(m, m[1:])]))
    ctx.check('L1/containing/objects-match-offsets', ctx.land(*[x.offset == y for x, y in zip(c, m)]))
    ctx.check('L1/containing/cached-units-not-parsed-again', not any(i in cached for i in made))


def h_die_cache_step(ctx):
    cfg = ctx.cfg
    k, which = cfg['k'], cfg['unit']
    mod = ctx.lib('dwarf.compileunit' if which == 'cu' else 'dwarf.typeunit')
    offs = _sorted_offsets(ctx, k)
    objs = [_Obj(o) for o in offs]
    made = []

    class DIEDouble(_Obj):
        def __init__(self, cu, stream, offset):
            _Obj.__init__(self, offset)
            made.append(self)
    orig = mod.DIE
    # a real DWARFInfo around the unit (the cache code may use whatever a unit can reach; only the entry class is a double)
    di, _ = mk_dwarfinfo(ctx, True, 8, debug_info=[0] * 16, debug_abbrev=[0], debug_types=[0] * 16)
    mod.DIE = DIEDouble
    try:
        if which == 'cu':
            unit = mod.CompileUnit(header={'unit_length': 1 << 24, 'version': 4}, dwarfinfo=di, structs=di.structs, cu_offset=0, cu_die_offset=offs[0])
        else:
            unit = mod.TypeUnit(header={'unit_length': 1 << 24, 'version': 4}, dwarfinfo=di, structs=di.structs, tu_offset=0, tu_die_offset=offs[0])
        unit._diemap = list(offs)
        unit._dielist = list(objs)
        req = ctx.uint('request', 24)
        ctx.assume(req >= offs[0])            # entries lie at or after the top entry
        got = unit._get_cached_DIE(req)
        ctx.outcome('hit' if not made else 'miss')
        ctx.check('L1/die/returned-object-has-the-requested-offset', got.offset == req)
        present = ctx.lor(*[o == req for o in offs])
        ctx.check('L1/die/parsed-iff-absent', ctx.iff(bool(made), ctx.lnot(present)))
        if not made:
            ctx.check('L1/die/hit-returns-the-identical-object', any(got is o for o in objs))
        m, c = unit._diemap, unit._dielist
        ctx.check_eq('L1/die/parallel-lists', len(m), len(c))
        ctx.check('L1/die/sorted-and-duplicate-free', ctx.land(*[a < b for a, b in zip(m, m[1:])]))
        ctx.check('L1/die/objects-match-offsets', ctx.land(*[x.offset == y for x, y in zip(c, m)]))
        ctx.check('L1/die/top-entry-stays-first', c[0] is objs[0])
        again = unit._get_cached_DIE(req)
        ctx.check('L1/die/repeat-is-identical', again is got)
    finally:
        mod.DIE = orig


# ------------------------------------------------------------------ fixtures for L2 / L3
def _dwarf_fixture(ctx, little=True):
    """two units (v4 with a small tree + line program + loc list + ranges, v5 with strx/rnglistx), frames, aranges, pubnames: concrete bytes"""
    ab = abbrev_table([
        (1, 0x11, True, [(0x10, 0x17), (0x03, 0x0e)]),                 # CU: stmt_list sec_offset, name strp
        (2, 0x39, True, [(0x01, 0x13), (0x1c, 0x0b)]),                 # namespace: sibling ref4, const_value
        (3, 0x34, False, [(0x02, 0x17), (0x49, 0x13)]),                # variable: location sec_offset, type ref4
        (4, 0x24, False, [(0x03, 0x08)]),                              # base type: name string
        (5, 0x2e, False, [(0x55, 0x17)]),                              # subprogram: ranges sec_offset
    ])
    strs = [0] + [ord(c) for c in 'unit.c\0']
    # line program (v4) at offset 0 of .debug_line
    class _C:
        def __init__(self):
            self.k = 0
        def uint(self, nm, bits):
            self.k += 1
            return (37 * self.k) % (1 << min(bits, 7)) or 1
        def sint(self, nm, bits):
            return -3
        def bytes(self, nm, n):
            return [1] * n
        def int_range(self, nm, lo, hi):
            return lo
        def mkbytes(self, x):
            return bytes(x)
    hb, want = LP5.gen_header(_C(), 4, False, little, 8, dict(opcode_base=13, dirs=[1], files=[2]))
    prog = [0x00, 9, 2] + enc.enc_int(0x1000, 8, little) + [0x14, 0x21, 0x03, 0x02, 0x01, 0x00, 1, 1]
    line = LP5.wrap_unit(hb + prog, False, little)
    loc = enc.enc_int(1, 8, little) + enc.enc_int(5, 8, little) + enc.enc_int(2, 2, little) + [0x50, 0x93] + [0] * 16
    rng = enc.enc_int(0x10, 8, little) + enc.enc_int(0x20, 8, little) + enc.enc_int(0x30, 8, little) + enc.enc_int(0x48, 8, little) + [0] * 16
    hA_probe, hsz = unit_header(4, False, little, 8, 0, body_len=0)
    # unit A body: top(1) ns(2){var(3) base(4)} sub(5) null
    top = [1] + enc.enc_int(0, 4, little) + enc.enc_int(1, 4, little)
    ns_off = hsz + len(top)
    var = [3] + enc.enc_int(0, 4, little)
    base_rel = ns_off + 6 + 9
    var += enc.enc_int(base_rel, 4, little)
    base = [4, 0x69, 0x6e, 0x74, 0]
    sub_rel = ns_off + 6 + len(var) + len(base) + 1
    ns = [2] + enc.enc_int(sub_rel, 4, little) + [7]
    sub = [5] + enc.enc_int(0, 4, little)
    bodyA = top + ns + var + base + [0] + sub + [0]
    hA, _ = unit_header(4, False, little, 8, 0, body_len=len(bodyA))
    unitA = hA + bodyA
    bodyB = [1] + enc.enc_int(0, 4, little) + enc.enc_int(1, 4, little) + [4, 0x63, 0] + [0]
    hB, _ = unit_header(3, False, little, 8, 0, body_len=len(bodyB))
    info = unitA + hB + bodyB
    offs = dict(A=0, B=len(unitA), ns=ns_off, var=ns_off + 6, base=base_rel, sub=sub_rel, hsz=hsz)
    # frames: one CIE + one FDE (.debug_frame)
    cie_body = [0xff] * 4 + [1, 0] + [1, 0x78, 16] + [0x0c, 7, 8, 0, 0, 0]
    cie = enc.enc_int(len(cie_body), 4, little) + cie_body
    fde_body = enc.enc_int(0, 4, little) + enc.enc_int(0x1000, 8, little) + enc.enc_int(0x20, 8, little) + [0x41, 0x0e, 16, 0]
    frame = cie + enc.enc_int(len(fde_body), 4, little) + fde_body
    # a second CIE that establishes no initial rules (only padding) with two FDEs saving different registers
    cie2_off = len(frame)
    cie2_body = [0xff] * 4 + [1, 0] + [1, 0x78, 16] + [0, 0, 0, 0, 0, 0]
    frame += enc.enc_int(len(cie2_body), 4, little) + cie2_body
    for k, reg in enumerate((6, 3)):
        fb = enc.enc_int(cie2_off, 4, little) + enc.enc_int(0x2000 + 0x100 * k, 8, little) + enc.enc_int(0x20, 8, little) + [0x41, 0x80 | reg, 2 + k, 0]
        frame += enc.enc_int(len(fb), 4, little) + fb
    # aranges: one set, one tuple
    ar_rest = enc.enc_int(2, 2, little) + enc.enc_int(0, 4, little) + [8, 0] + [0] * 4
    ar_body = ar_rest + enc.enc_int(0x1000, 8, little) + enc.enc_int(0x20, 8, little) + [0] * 16
    aranges = enc.enc_int(len(ar_body), 4, little) + ar_body
    pn_body = enc.enc_int(2, 2, little) + enc.enc_int(0, 4, little) + enc.enc_int(len(unitA), 4, little) + enc.enc_int(offs['sub'], 4, little) + [0x66, 0] + [0] * 4
    pubnames = enc.enc_int(len(pn_body), 4, little) + pn_body
    secs = dict(debug_info=info, debug_abbrev=ab, debug_str=strs, debug_line=line, debug_loc=loc, debug_ranges=rng, debug_frame=frame, debug_aranges=aranges,
                debug_pubnames=pubnames)
    return secs, offs


def _norm(x, depth=0):
    """plain comparable view of a library result"""
    if depth > 6:
        return '...'
    if x is None or isinstance(x, (bool, int, str, bytes)):
        return x
    if isinstance(x, (list, tuple)):
        return [_norm(v, depth + 1) for v in x]
    if isinstance(x, dict):
        return sorted((str(k), _norm(v, depth + 1)) for k, v in x.items())
    if hasattr(x, '_asdict'):
        return _norm(x._asdict(), depth + 1)
    return type(x).__name__


def _die_view(d):
    return (d.offset, d.size, d.tag, d.abbrev_code, d.has_children, [(k, v.form, _norm(v.value), _norm(v.raw_value), v.offset) for k, v in d.attributes.items()])


OPS = {}
_DRAIN = [list]


def _d(it):
    """consume an iterator of the library: plainly, or (L5) with the streams moved between the steps"""
    return _DRAIN[0](it)


def _op(name):
    def deco(f):
        OPS[name] = f
        return f
    return deco


@_op('iter_CUs')
def _o1(di, o):
    return [(c.cu_offset, c.cu_die_offset, c.size, c['version']) for c in _d(di.iter_CUs())]


@_op('get_CU_at(B)')
def _o2(di, o):
    c = di.get_CU_at(o['B'])
    return (c.cu_offset, c['version'])


@_op('get_CU_containing(var)')
def _o3(di, o):
    return di.get_CU_containing(o['var']).cu_offset


@_op('top_DIE(A)')
def _o4(di, o):
    return _die_view(di.get_CU_at(0).get_top_DIE())


@_op('iter_DIEs(A)')
def _o5(di, o):
    return [_die_view(d) for d in _d(di.get_CU_at(0).iter_DIEs())]


@_op('DIE_by_offset(base)')
def _o6(di, o):
    return _die_view(di.get_CU_at(0).get_DIE_from_refaddr(o['base']))


@_op('children(ns)')
def _o7(di, o):
    return [c.offset for c in _d(di.get_CU_at(0).get_DIE_from_refaddr(o['ns']).iter_children())]


@_op('parent(base)')
def _o8(di, o):
    p = di.get_CU_at(0).get_DIE_from_refaddr(o['base']).get_parent()
    return None if p is None else p.offset


@_op('follow_ref(var.type)')
def _o9(di, o):
    return _die_view(di.get_CU_at(0).get_DIE_from_refaddr(o['var']).get_DIE_from_attribute('DW_AT_type'))


@_op('line_program(A)')
def _o10(di, o):
    lp = di.line_program_for_CU(di.get_CU_at(0))
    return [(e.command, e.is_extended, _norm(e.args), None if e.state is None else (e.state.address, e.state.line, e.state.end_sequence)) for e in lp.get_entries()]


@_op('CFI_entries')
def _o11(di, o):
    out = []
    for e in di.CFI_entries():
        out.append((type(e).__name__, e.offset, _norm(dict(e.header)), [(i.opcode, _norm(i.args)) for i in e.instructions],
                    [(_norm({k: (getattr(v, 'type', None), getattr(v, 'arg', None), getattr(v, 'reg', None), getattr(v, 'offset', None)) if not isinstance(v, int) else v
                              for k, v in line.items()})) for line in e.get_decoded().table], list(e.get_decoded().reg_order)))
    return out


def _cfi_entries(di):
    # one entry list per DWARFInfo, as a caller that keeps the result of CFI_entries() has it: the entries (and the CIE objects the
    # FDEs point to) are shared between the queries of a history
    if not hasattr(di, '_verif_cfi'):
        di._verif_cfi = di.CFI_entries()
    return di._verif_cfi


def _cfi_decoded(k):
    def f(di, o):
        e = _cfi_entries(di)[k]
        d = e.get_decoded()
        return (type(e).__name__, len(d.table), list(d.reg_order))
    return f


for _k in range(5):
    OPS['CFI_decoded(%d)' % _k] = _cfi_decoded(_k)


@_op('aranges(0x1010)')
def _o12(di, o):
    return di.get_aranges().cu_offset_at_addr(0x1010)


@_op('pubnames')
def _o13(di, o):
    return [(k, v.cu_ofs, v.die_ofs) for k, v in di.get_pubnames().items()]


@_op('location_list(var)')
def _o14(di, o):
    return _norm(di.location_lists().get_location_list_at_offset(0))


@_op('range_list(sub)')
def _o15(di, o):
    return _norm(di.range_lists().get_range_list_at_offset(0))


def h_stream_pos(ctx):
    """L2: an operation gives the same answer wherever the previous queries left the shared streams"""
    cfg = ctx.cfg
    secs, offs = _dwarf_fixture(ctx, cfg['little'])
    opname = cfg['op']
    op = OPS[opname]
    base_di, _ = mk_dwarfinfo(ctx, cfg['little'], 8, **secs)
    want = op(base_di, offs)
    di, streams = mk_dwarfinfo(ctx, cfg['little'], 8, **secs)
    for w in cfg.get('warm', []):
        OPS[w](di, offs)
    # adversarial repositioning of EVERY shared stream: symbolic positions anywhere in (or just beyond) each section
    for i, (name, st) in enumerate(sorted(streams.items())):
        p = ctx.int_range('pos.%s' % name, 0, len(secs[name]) + 1)
        st.seek(p)
    got = op(di, offs)
    ctx.outcome('ok')
    ctx.check_eq('L2/%s' % opname, _norm(got), _norm(want))
    # and once more: repeated identical queries return equal results
    ctx.check_eq('L2/repeat/%s' % opname, _norm(op(di, offs)), _norm(want))


def _elf_fixture(cls, little):
    img = Image(cls, little, machine=62 if cls == 64 else 3, e_type=3)
    dynstr = [0] + [ord(c) for c in 'f\0gg\0lib.so\0']
    stroff = img.blob(dynstr)
    symsz = L.sizeof('SYM', cls)
    symoff = img.blob(sum([L.encode('SYM', cls, little, dict(st_name=[0, 1, 3][i], st_value=0x100 + i, st_info=0x12, st_shndx=1 if i else 0)) for i in range(3)], []), align=8)
    w = lambda v: enc.enc_int(v, 4, little)
    note = w(4) + w(4) + w(3) + [0x47, 0x4e, 0x55, 0] + [1, 2, 3, 4] + w(2) + w(1) + w(9) + [0x58, 0, 0, 0] + [7, 0, 0, 0] + w(0) + w(0) + w(5)
    noteoff = img.blob(note, align=4)
    dynsz = L.sizeof('DYN', cls)
    tags = [(1, 6), (5, stroff), (6, symoff), (10, len(dynstr)), (11, symsz), (0, 0)]
    dynoff = img.blob(sum([L.encode('DYN', cls, little, dict(d_tag=t, d_val=v)) for t, v in tags], []), align=8)
    img.segment(p_type=1, p_offset=0, p_vaddr=0, p_paddr=0, p_filesz=4096, p_memsz=4096, p_flags=5, p_align=0x1000)
    img.segment(p_type=2, p_offset=dynoff, p_vaddr=dynoff, p_paddr=dynoff, p_filesz=len(tags) * dynsz, p_memsz=len(tags) * dynsz, p_flags=6, p_align=8)
    img.section('', sh_type=0)
    img.section('.dynstr', sh_type=3, sh_offset=stroff, sh_size=len(dynstr), sh_flags=2)
    img.section('.dynsym', sh_type=11, sh_offset=symoff, sh_size=3 * symsz, sh_entsize=symsz, sh_link=1, sh_info=1)
    img.section('.note.x', sh_type=7, sh_offset=noteoff, sh_size=len(note))
    img.section('.dynamic', sh_type=6, sh_offset=dynoff, sh_size=len(tags) * dynsz, sh_entsize=dynsz, sh_link=1)
    # section names need not be unique (.group, .rodata.str1.1, COMDAT .debug_types ...): a second section called .note.x
    img.section('.note.x', sh_type=1, sh_offset=stroff, sh_size=2)
    img.add_shstrtab()
    return img.build()


ELF_OPS = {
    'sections': lambda e: [(s.name, type(s).__name__, s['sh_offset'], s['sh_size']) for s in _d(e.iter_sections())],
    'section_by_name': lambda e: [(n, (lambda s: None if s is None else s['sh_offset'])(e.get_section_by_name(n))) for n in ('.dynsym', '.nope', '.dynstr', '.note.x')],
    'section_index': lambda e: [e.get_section_index(n) for n in ('.dynamic', '.nope', '.note.x')],
    'has_section': lambda e: [e.has_section(n) for n in ('.dynamic', '.nope', '.note.x', '.note')],
    'segments': lambda e: [(type(s).__name__, s['p_offset'], s['p_filesz']) for s in _d(e.iter_segments())],
    'symbols': lambda e: [(s.name, s['st_value']) for s in _d(e.get_section_by_name('.dynsym').iter_symbols())],
    'symbol_by_name': lambda e: [(lambda r: None if r is None else [x['st_value'] for x in r])(e.get_section_by_name('.dynsym').get_symbol_by_name(n)) for n in ('gg', 'zz')],
    'dynamic_tags': lambda e: [(str(t.entry.d_tag), t.entry.d_val) for t in _d(e.get_section_by_name('.dynamic').iter_tags())],
    'needed': lambda e: [t.needed for t in _d(e.get_section_by_name('.dynamic').iter_tags('DT_NEEDED'))],
    'segment_symbols': lambda e: [(s.name, s['st_value']) for s in [x for x in _d(e.iter_segments()) if type(x).__name__ == 'DynamicSegment'][0].iter_symbols()] if False else
    [(str(t.entry.d_tag), t.entry.d_val) for t in _d([x for x in _d(e.iter_segments()) if type(x).__name__ == 'DynamicSegment'][0].iter_tags())],
    'notes': lambda e: [(n['n_name'], str(n['n_type']), n['n_offset'], n['n_size']) for n in _d(e.get_section(3).iter_notes())],
    'section_data': lambda e: e.get_section_by_name('.dynstr').data(),
    'string': lambda e: e.get_section_by_name('.dynstr').get_string(3),
    'address_offsets': lambda e: list(e.address_offsets(0x10, 4)),
}


# histories: nothing, or one earlier query that fills a lazily built map (each accessor may be the first to build it)
ELF_WARM = [[], ['sections'], ['section_index'], ['section_by_name'], ['has_section'], ['symbol_by_name'], ['segments']]


def h_elf_stream_pos(ctx):
    cfg = ctx.cfg
    EF = ctx.lib('elf.elffile')
    data = _elf_fixture(cfg['elfclass'], cfg['little'])
    op = ELF_OPS[cfg['op']]
    want = op(EF.ELFFile(ctx.stream(data)))
    st = ctx.stream(data)
    elf = EF.ELFFile(st)
    for w in cfg.get('warm', []):
        ELF_OPS[w](elf)
    st.seek(ctx.int_range('pos', 0, len(data) + 1))
    got = op(elf)
    ctx.outcome('ok')
    ctx.check_eq('L2/elf/%s' % cfg['op'], _norm(got), _norm(want))
    ctx.check_eq('L2/elf/repeat/%s' % cfg['op'], _norm(op(elf)), _norm(want))


# ------------------------------------------------------------------ L5 iterators suspended while the streams move
def h_iterators(ctx):
    """every iterator of the alphabet, with the shared streams moved to an arbitrary position between two steps, yields what it
    yields when drained in one go"""
    cfg = ctx.cfg
    if cfg['kind'] == 'elf':
        EF = ctx.lib('elf.elffile')
        data = _elf_fixture(cfg['elfclass'], cfg['little'])
        op = ELF_OPS[cfg['op']]
        want = _norm(op(EF.ELFFile(ctx.stream(data))))
        obj = EF.ELFFile(ctx.stream(data))
        run = lambda: op(obj)
    else:
        secs, offs = _dwarf_fixture(ctx, True)
        di0, _ = mk_dwarfinfo(ctx, True, 8, **secs)
        want = _norm(OPS[cfg['op']](di0, offs))
        di, _ = mk_dwarfinfo(ctx, True, 8, **secs)
        run = lambda: OPS[cfg['op']](di, offs)
    _DRAIN[0] = ctx.drain
    try:
        got = run()
    finally:
        _DRAIN[0] = list
    ctx.outcome('ok')
    ctx.check_eq('L5/%s/%s' % (cfg['kind'], cfg['op']), _norm(got), want)
    ctx.check_eq('L5/%s/%s/again' % (cfg['kind'], cfg['op']), _norm(run()), want)


ITER_ELF_OPS = ['sections', 'segments', 'symbols', 'dynamic_tags', 'needed', 'segment_symbols', 'notes']
ITER_DWARF_OPS = ['iter_CUs', 'iter_DIEs(A)', 'children(ns)', 'CFI_entries', 'pubnames', 'line_program(A)']


# ------------------------------------------------------------------ L7 type units: lookups by signature after partial iteration
def h_type_units(ctx):
    cfg = ctx.cfg
    little = cfg['little']
    ab = abbrev_table([(1, T.TAG_CU, True, []), (2, T.TAG_VAR, False, [(T.AT['const_value'], 0x0b)]), (3, T.TAG_VAR, False, [(T.AT['type'], 0x20)])])
    sigs = [0x1111, 0x8000000000000002, 0x33]
    if cfg.get('dup'):
        # the same type emitted by two translation units and not folded (ld -r, no COMDAT folding): two units carry one signature
        sigs = [0x1111, 0x8000000000000002, 0x1111]
    types, tu_offs = [], []
    for i, sg in enumerate(sigs):
        hp, hsz = unit_header(4, False, little, 8, 0, tu=True, body_len=0)
        h, _ = unit_header(4, False, little, 8, 0, tu=True, body_len=4, signature=sg, type_offset=hsz + 1)
        tu_offs.append(len(types))
        types += h + [1, 2, 0x40 + i, 0]
    hI, hszI = unit_header(4, False, little, 8, 0, 'compile', body_len=1 + 3 * 9 + 1)
    info = hI + [1] + sum([[3] + enc.enc_int(sg, 8, little) for sg in sigs], []) + [0]

    def fresh():
        return mk_dwarfinfo(ctx, little, 8, debug_info=info, debug_abbrev=ab, debug_types=types)[0]

    def answers(di):
        out = []
        for sg in sigs:
            tu = di.get_TU_by_sig8(sg)
            d = di.get_DIE_by_sig8(sg)
            out.append((tu.tu_offset, d.offset, d.attributes['DW_AT_const_value'].value))
        kids = list(next(di.iter_CUs()).get_top_DIE().iter_children())
        out.append([k.get_DIE_from_attribute('DW_AT_type').offset for k in kids])
        out.append([t.tu_offset for t in di.iter_TUs()])
        return out
    cold = answers(fresh())
    di = fresh()
    sched = cfg['schedule']
    if sched.startswith('steps:'):
        it = di.iter_TUs()
        for _ in range(int(sched.split(':')[1])):
            next(it)
    elif sched == 'full':
        list(di.iter_TUs())
    elif sched == 'lookup-last-first':
        di.get_TU_by_sig8(sigs[-1])
    ctx.outcome('ok')
    got = answers(di)
    ctx.check_eq('L7/type-units/%s/equals-cold' % sched.split(':')[0], got, cold)
    if not cfg.get('dup'):
        ctx.check_eq('L7/type-units/offsets', [a[0] for a in got[:3]], tu_offs)
    # the enumeration lists the units that are encoded, one per unit header, whatever was looked up by signature before
    ctx.check_eq('L7/type-units/%s/enumeration-after-lookups' % sched.split(':')[0], got[-1], tu_offs)
    ctx.check_eq('L7/type-units/enumeration-cold', [t.tu_offset for t in fresh().iter_TUs()], tu_offs)


# ------------------------------------------------------------------ L3 memo tables
def h_memo(ctx):
    """answers after an arbitrary set of earlier queries (every subset / order in cfg) equal the cold answers"""
    cfg = ctx.cfg
    secs, offs = _dwarf_fixture(ctx, True)
    cold = {}
    for name in cfg['ask']:
        di0, _ = mk_dwarfinfo(ctx, True, 8, **secs)
        cold[name] = _norm(OPS[name](di0, offs))
    di, _ = mk_dwarfinfo(ctx, True, 8, **secs)
    for name in cfg['history']:
        OPS[name](di, offs)
    ctx.outcome('ok')
    for name in cfg['ask']:
        ctx.check_eq('L3/%s/after/%s' % (name, '+'.join(cfg['history']) or 'nothing'), _norm(OPS[name](di, offs)), cold[name])


# ------------------------------------------------------------------ L4 navigation links over all tree shapes
def h_links(ctx):
    cfg = ctx.cfg
    e = cfg['env']
    E = T._env(e)
    sib, forest, sched = cfg['sib'], cfg['forest'], cfg['schedule']
    sibform = {'ref4': 0x13, 'ref_udata': 0x15, 'ref_addr': 0x10}.get(sib)
    parent_attrs = ([(T.AT['sibling'], sibform)] if sibform else []) + [(T.AT['const_value'], 0x0b)]
    ab = abbrev_table([(1, T.TAG_CU, bool(forest), []), (2, T.TAG_VAR, False, [(T.AT['const_value'], 0x0b)]), (3, T.TAG_NS, True, parent_attrs)])
    hdr_probe, hsz = unit_header(E.version, E.fmt64, E.little, E.addr, 0, 'compile', body_len=0)
    top_off = hsz

    class _K:
        def __init__(self):
            self.n = 0
        def byte(self, nm):
            self.n += 1
            return (self.n * 29) & 0xff
    body, flat = T._layout_tree(_K(), E, forest, sib, top_off + 1, 0, 't', 0, cfg.get('empty_parents', False))
    full = [1] + body + ([0] if forest else [])
    h, _ = unit_header(E.version, E.fmt64, E.little, E.addr, 0, 'compile', body_len=len(full))
    sec = h + full
    want = [dict(off=top_off, depth=0, parent=None, null=False)] + flat

    def answers(cu):
        out = []
        # null entries are entries too (iteration yields them): their parent is the entry whose child list they close. They are
        # asked first, so that nothing has filled in the navigation links yet
        for w in want:
            if w['null']:
                p = cu.get_DIE_from_refaddr(w['off']).get_parent()
                out.append((w['off'], None if p is None else p.offset, 'null'))
        for w in want:
            if w['null']:
                continue
            d = cu.get_DIE_from_refaddr(w['off'])
            p = d.get_parent()
            out.append((w['off'], None if p is None else p.offset, [c.offset for c in d.iter_children()]))
        return out
    di0, _ = mk_dwarfinfo(ctx, E.little, E.addr, debug_info=sec, debug_abbrev=ab)
    cold = answers(next(di0.iter_CUs()))
    # reference nesting
    ref = [(w['off'], (w['parent']['off'] if w['parent'] is not None else top_off), 'null') for w in want if w['null']]
    for w in want:
        if w['null']:
            continue
        par = None if w['depth'] == 0 else (w['parent']['off'] if w['parent'] is not None else top_off)
        kids = [x['off'] for x in want if not x['null'] and x is not w and ((x['parent'] is w) or (w['depth'] == 0 and x['depth'] == 1 and x['parent'] is None))]
        ref.append((w['off'], par, kids))
    di, streams = mk_dwarfinfo(ctx, E.little, E.addr, debug_info=sec, debug_abbrev=ab)
    cu = next(di.iter_CUs())
    nonnull = [w for w in want if not w['null']]
    if sched == 'full-iteration':
        list(cu.iter_DIEs())
    elif sched.startswith('abandon:'):
        j = int(sched.split(':')[1])
        it = cu.iter_DIEs()
        for _ in range(min(j, len(want))):
            next(it)
    elif sched == 'children-of-each-backwards':
        for w in reversed(nonnull):
            list(cu.get_DIE_from_refaddr(w['off']).iter_children())
    elif sched == 'parents-first-backwards':
        for w in reversed(nonnull):
            cu.get_DIE_from_refaddr(w['off']).get_parent()
    elif sched == 'abandon-children':
        for w in nonnull:
            it = cu.get_DIE_from_refaddr(w['off']).iter_children()
            next(it, None)
    elif sched == 'top-children-then-iterate':
        # sibling attributes let this walk step over whole subtrees: the unit's last entry gets cached while entries before it are not
        list(cu.get_top_DIE().iter_children())
        seq0 = [(d.offset, d.size) for d in cu.iter_DIEs()]
        ctx.check_eq('L4/%s/iteration-after-listing-the-top-children' % sib, [o for o, _ in seq0], [w['off'] for w in want] + ([top_off + 1 + len(body)] if forest else []))
    streams['debug_info'].seek(ctx.int_range('pos', 0, len(sec)))
    got = answers(cu)
    ctx.outcome('ok')
    ctx.check_eq('L4/%s/%s/equals-cold' % (sib, sched.split(':')[0]), got, cold)
    ctx.check_eq('L4/%s/%s/equals-nesting' % (sib, sched.split(':')[0]), got, ref)
    seq = [(d.offset, d.size) for d in cu.iter_DIEs()]
    ctx.check_eq('L4/sequential-equals-random-access', seq, [(w['off'], cu.get_DIE_from_refaddr(w['off']).size) for w in want] +
                 ([(top_off + 1 + len(body), 1)] if forest else []))


# ------------------------------------------------------------------ L8 imported units with an attached supplementary file
def h_imported(ctx):
    """iter_DIEs of a unit that imports a partial unit of the attached supplementary file (dwz): the walk substitutes the imported unit's
    tree for the DW_TAG_imported_unit entry.  The answer must be the same on the first walk, on a second walk, after an abandoned walk
    and after random accesses - and must follow the attachment (attached later / never)."""
    cfg = ctx.cfg
    little, addr, sched, form = cfg['little'], cfg['addr'], cfg['schedule'], cfg['form']
    TAG_IMPORTED, TAG_PARTIAL, AT_IMPORT = 0x3d, 0x3c, 0x18
    fsz = {0x1c: 4, 0x1f20: 4, 0x1d: 8}[form]
    # supplementary file: one partial unit (top entry + one variable)
    sup_ab = abbrev_table([(1, TAG_PARTIAL, True, []), (2, T.TAG_VAR, False, [(T.AT['const_value'], 0x0b)])])
    sup_body = [1, 2, ctx.byte('sup.const'), 0]
    sh, shsz = unit_header(4, False, little, addr, 0, 'compile', body_len=len(sup_body))
    sup_sec = sh + sup_body
    # main file: top entry, [imported unit], variable, [namespace [imported unit]]
    ab = abbrev_table([(1, T.TAG_CU, True, []), (2, T.TAG_VAR, False, [(T.AT['const_value'], 0x0b)]), (3, TAG_IMPORTED, False, [(AT_IMPORT, form)]), (4, T.TAG_NS, True, [])])
    imp = [3] + enc.enc_int(shsz, fsz, little)
    body = [1] + imp + [2, ctx.byte('main.const')] + [4] + imp + [0] + [0]
    h, hsz = unit_header(4, False, little, addr, 0, 'compile', body_len=len(body))
    sec = h + body
    o = hsz
    offs = dict(top=o, imp1=o + 1, var=o + 1 + len(imp), ns=o + 3 + len(imp), imp2=o + 4 + len(imp), ns_end=o + 4 + 2 * len(imp), end=o + 5 + 2 * len(imp))
    S = ('sup', )
    with_sup = [('main', offs['top'], 'DW_TAG_compile_unit'), ('sup', shsz, 'DW_TAG_partial_unit'), ('sup', shsz + 1, 'DW_TAG_variable'), ('sup', shsz + 3, None),
                ('main', offs['var'], 'DW_TAG_variable'), ('main', offs['ns'], 'DW_TAG_namespace'),
                ('sup', shsz, 'DW_TAG_partial_unit'), ('sup', shsz + 1, 'DW_TAG_variable'), ('sup', shsz + 3, None),
                ('main', offs['ns_end'], None), ('main', offs['end'], None)]
    without = [('main', offs['top'], 'DW_TAG_compile_unit'), ('main', offs['imp1'], 'DW_TAG_imported_unit'), ('main', offs['var'], 'DW_TAG_variable'),
               ('main', offs['ns'], 'DW_TAG_namespace'), ('main', offs['imp2'], 'DW_TAG_imported_unit'), ('main', offs['ns_end'], None), ('main', offs['end'], None)]
    di, streams = mk_dwarfinfo(ctx, little, addr, debug_info=sec, debug_abbrev=ab)
    sup, _ = mk_dwarfinfo(ctx, little, addr, debug_info=sup_sec, debug_abbrev=sup_ab)
    cu = next(di.iter_CUs())

    def view(it):
        return [('sup' if d.cu.dwarfinfo is sup else 'main', d.offset, d.tag) for d in it]
    attach_first = sched != 'walk-then-attach'
    if attach_first:
        di.supplementary_dwarfinfo = sup
    if sched == 'full-walk':
        list(cu.iter_DIEs())
    elif sched.startswith('abandon:'):
        it = cu.iter_DIEs()
        for _ in range(int(sched.split(':')[1])):
            next(it)
    elif sched == 'random-access':
        for k in ('imp2', 'var', 'imp1', 'ns'):
            cu.get_DIE_from_refaddr(offs[k])
        list(cu.get_top_DIE().iter_children())
    elif sched == 'walk-then-attach':
        ctx.check_eq('L8/imported/%#x/not-attached' % form, view(ctx.drain(cu.iter_DIEs())), without)
        di.supplementary_dwarfinfo = sup
    elif sched == 'two-full-walks':
        list(cu.iter_DIEs())
        list(cu.iter_DIEs())
    got = view(ctx.drain(cu.iter_DIEs()))
    ctx.outcome('ok')
    ctx.check_eq('L8/imported/%#x/%s/walk' % (form, sched.split(':')[0]), got, with_sup)
    again = view(cu.iter_DIEs())
    ctx.check_eq('L8/imported/%#x/%s/second-walk' % (form, sched.split(':')[0]), again, with_sup)
    # the substituted entries are the supplementary file's own entries: their parent links lead to the partial unit, and the imported-unit
    # entries themselves stay reachable by offset
    ctx.check_eq('L8/imported/%#x/by-offset' % form, [cu.get_DIE_from_refaddr(offs[k]).tag for k in ('imp1', 'imp2')], ['DW_TAG_imported_unit'] * 2)
    ctx.check_eq('L8/imported/%#x/children-of-top' % form, [d.offset for d in cu.get_top_DIE().iter_children()], [offs['imp1'], offs['var'], offs['ns']])


# ------------------------------------------------------------------ L9 indexed forms resolved through the top entry, whatever was asked first
def h_indexed_cold(ctx):
    """a DWARF 5 unit whose child entries use indexed forms (strx1 / addrx1: resolved through the *_base attributes of the unit's top entry) followed
    by further attributes.  Entries are fetched by offset on a fresh unit (nothing parsed yet), after the top entry, after a walk: same answers."""
    cfg = ctx.cfg
    little, addr, sched = cfg['little'], cfg['addr'], cfg['schedule']
    AT_STROFF, AT_ADDRBASE, AT_NAME, AT_LOWPC, AT_LINE = 0x72, 0x73, 0x03, 0x11, 0x3b
    ab = abbrev_table([(1, T.TAG_CU, True, [(AT_STROFF, 0x17), (AT_ADDRBASE, 0x17)]),
                       (2, T.TAG_VAR, False, [(AT_NAME, 0x25), (AT_LINE, 0x0b)]),                  # strx1, data1
                       (3, T.TAG_VAR, False, [(AT_LOWPC, 0x29), (AT_LINE, 0x0b), (AT_NAME, 0x25)])])   # addrx1, data1, strx1
    strs = [ord(c) for c in 'alpha\0beta\0']
    stroffs_hdr = enc.enc_int(4 + 2 * 4, 4, little) + enc.enc_int(5, 2, little) + [0, 0]
    stroffs = stroffs_hdr + enc.enc_int(0, 4, little) + enc.enc_int(6, 4, little)
    addrs = [ctx.uint('addr%d' % i, 8 * addr) for i in range(2)]
    addr_body = enc.enc_int(5, 2, little) + [addr, 0] + sum([enc.enc_int(a, addr, little) for a in addrs], [])
    addrsec = enc.enc_int(len(addr_body), 4, little) + addr_body
    l1, l2 = ctx.byte('line1'), ctx.byte('line2')
    i1, i2, ia = ctx.int_range('str1', 0, 1), ctx.int_range('str2', 0, 1), ctx.int_range('addrx', 0, 1)
    body = [1] + enc.enc_int(len(stroffs_hdr), 4, little) + enc.enc_int(8, 4, little) + [2, i1, l1] + [3, ia, l2, i2] + [0]
    h, hsz = unit_header(5, False, little, addr, 0, 'compile', body_len=len(body))
    sec = h + body
    o1 = hsz + 9
    o2 = o1 + 3
    names = [b'alpha', b'beta']
    want1 = (o1, 'DW_TAG_variable', 3, [('DW_AT_name', 'DW_FORM_strx1', ('sel', i1), o1 + 1), ('DW_AT_decl_line', 'DW_FORM_data1', l1, o1 + 2)])
    want2 = (o2, 'DW_TAG_variable', 4, [('DW_AT_low_pc', 'DW_FORM_addrx1', ctx.select(addrs, ia), o2 + 1), ('DW_AT_decl_line', 'DW_FORM_data1', l2, o2 + 2),
                                        ('DW_AT_name', 'DW_FORM_strx1', ('sel', i2), o2 + 3)])
    di, streams = mk_dwarfinfo(ctx, little, addr, debug_info=sec, debug_abbrev=ab, debug_str=strs, debug_str_offsets=stroffs, debug_addr=addrsec)
    cu = next(di.iter_CUs())
    if sched == 'top-first':
        cu.get_top_DIE()
    elif sched == 'walk-first':
        list(cu.iter_DIEs())
    elif sched == 'abandoned-walk':
        next(cu.iter_DIEs())
    order = (o2, o1) if cfg.get('second_first') else (o1, o2)
    got = {}
    for o in order:
        d = cu.get_DIE_from_refaddr(o) if not cfg.get('via_dwarfinfo') else di.get_DIE_from_refaddr(o)
        got[o] = d
    ctx.outcome('ok')
    for o, w in ((o1, want1), (o2, want2)):
        d = got[o]
        ctx.check_eq('L9/%s/entry/offset-tag-size' % sched, [d.offset, d.tag, d.size], [w[0], w[1], w[2]])
        ctx.check_eq('L9/%s/entry/attribute-names' % sched, list(d.attributes), [a[0] for a in w[3]])
        for nm, form, val, aoff in w[3]:
            a = d.attributes.get(nm)
            if a is None:
                continue
            ctx.check_eq('L9/%s/attr/%s/form-offset' % (sched, nm), [a.form, a.offset], [form, aoff])
            if isinstance(val, tuple):
                ctx.check('L9/%s/attr/%s/value' % (sched, nm), ctx.land(*[ctx.implies(val[1] == k, a.value == names[k]) for k in range(2)]))
            else:
                ctx.check_eq('L9/%s/attr/%s/value' % (sched, nm), a.value, val)
    # the sequential walk afterwards gives the same entries, each once, in order
    seq = [(d.offset, d.size) for d in cu.iter_DIEs()]
    ctx.check_eq('L9/%s/walk-afterwards' % sched, seq, [(hsz, 9), (o1, 3), (o2, 4), (o2 + 4, 1)])
    ctx.check('L9/%s/by-offset-again-identical' % sched, all(cu.get_DIE_from_refaddr(o) is got[o] for o in (o1, o2)))


# ------------------------------------------------------------------ instances
def _links_instances(tier):
    out = []
    maxn = 4 if tier == 'quick' else 5
    forests = []
    for n in range(1, maxn + 1):
        forests += T._trees(n)
    scheds = ['cold', 'full-iteration', 'abandon:1', 'abandon:2', 'abandon:3', 'children-of-each-backwards', 'parents-first-backwards', 'abandon-children', 'top-children-then-iterate']
    for e, sibs in ((T.ENVS_Q[0], ('none', 'ref4')), (T.ENVS_Q[1], ('ref_addr',))):
        for forest in forests:
            for sib in sibs:
                if sib != 'none' and not any(f for f in forest):
                    continue
                for s in scheds:
                    out.append(dict(env=e, forest=forest, sib=sib, schedule=s))
                    if T._count(forest) in (2, 3) and s in ('cold', 'abandon:1', 'parents-first-backwards', 'top-children-then-iterate'):
                        out.append(dict(env=e, forest=forest, sib=sib, schedule=s, empty_parents=True))
    return out


def _memo_instances(tier):
    names = ['iter_CUs', 'get_CU_at(B)', 'get_CU_containing(var)', 'top_DIE(A)', 'iter_DIEs(A)', 'DIE_by_offset(base)', 'children(ns)', 'parent(base)', 'follow_ref(var.type)',
             'line_program(A)', 'CFI_entries', 'aranges(0x1010)', 'pubnames', 'location_list(var)', 'range_list(sub)'] + ['CFI_decoded(%d)' % k for k in (4, 2, 3, 0, 1)]
    out = []
    # every single prior query and a set of pairs / longer histories before asking everything
    for hname in names:
        out.append(dict(history=[hname], ask=names))
    hist = [['parent(base)', 'iter_DIEs(A)'], ['children(ns)', 'parent(base)'], ['get_CU_at(B)', 'get_CU_containing(var)', 'iter_CUs'], ['DIE_by_offset(base)', 'top_DIE(A)', 'children(ns)'],
            ['line_program(A)', 'line_program(A)'], ['follow_ref(var.type)', 'parent(base)', 'children(ns)', 'iter_DIEs(A)'], names[::-1], names]
    for hs in hist:
        out.append(dict(history=hs, ask=names))
    return out


TIER_PARAMS = {'quick': {'conc_cap': 700}, 'thorough': {'conc_cap': 900}}

HARNESSES = [
    H('h10_L1_cu_cache', h_cu_cache_step, lambda tier: [dict(k=k) for k in ((0, 1, 2, 3, 4) if tier == 'quick' else (0, 1, 2, 3, 4, 5))], expect=('hit', 'miss'),
      desc='L1: DWARFInfo._cached_CU_at_offset from an ARBITRARY valid cache (k symbolic strictly increasing offsets, doubles carrying their offset) and a symbolic request: returned offset, '
           'hit returns the identical object, parse iff absent, post-state sorted / duplicate free / parallel / = pre + request, repeat is identical'),
    H('h10_L1_cu_containing', h_cu_containing_step, lambda tier: [dict(k=k, mask=m) for k in ((1, 2, 3, 4) if tier == 'quick' else (1, 2, 3, 4, 5)) for m in range(1 << k)], expect=('found',),
      desc='L1: DWARFInfo.get_CU_containing(offset) from every cache state (any subset of 1-4 units with symbolic sizes already cached): returns the unit whose extent contains the symbolic offset'),
    H('h10_L1_die_cache', h_die_cache_step, lambda tier: [dict(k=k, unit=u) for u in ('cu', 'tu') for k in ((1, 2, 3, 4) if tier == 'quick' else (1, 2, 3, 4, 5))], expect=('hit', 'miss'),
      desc='L1: CompileUnit._get_cached_DIE and TypeUnit._get_cached_DIE, same lemma with the top entry first'),
    H('h10_L2_dwarf_stream_pos', h_stream_pos,
      lambda tier: [dict(little=True, op=o, warm=w) for o in OPS for w in ([], ['iter_DIEs(A)'])] + [dict(little=False, op=o, warm=[]) for o in ('iter_DIEs(A)', 'line_program(A)', 'CFI_entries')],
      expect=('ok',),
      desc='L2: every DWARF operation of the alphabet (unit/entry lookup, children/parent, reference following, line program, CFI, aranges, pubnames, loc/range lists) on a two-unit fixture with the '
           'position of EVERY shared section stream symbolic (anywhere in the section): same answer as from a fresh object; repeated query equal'),
    H('h10_L2_elf_stream_pos', h_elf_stream_pos,
      lambda tier: [dict(elfclass=c, little=l, op=o, warm=w) for c, l in ((64, True), (32, False)) for o in ELF_OPS for w in ELF_WARM if w != [o]], expect=('ok',),
      desc='L2: section / segment / symbol / dynamic / note / string / data / address-map access on an ELF fixture with the file stream position symbolic'),
    H('h10_L5_iterators', h_iterators,
      lambda tier: [dict(kind='elf', elfclass=c, little=l, op=o) for c, l in ((64, True), (32, False)) for o in ITER_ELF_OPS] + [dict(kind='dwarf', op=o) for o in ITER_DWARF_OPS], expect=('ok',),
      desc='L5: every iterator of the alphabet (sections, segments, symbols, dynamic tags, notes, units, entries, children, call-frame entries, name table) consumed step by step with all '
           'streams moved to a symbolic position between two steps yields what it yields when drained at once'),
    H('h10_L6_line_header_formats', LP5.h_header,
      lambda tier: [c for c in LP5._header_instances(tier) if c['ver'] == 5 and len(c['shape'].get('file_format', [])) == 3 and all(f == 'udata' for _, f in c['shape']['file_format'][1:])],
      decoy='all', expect=('ok',),
      desc='L6: a v5 line-program header decoded after another header whose entry formats have the same forms but other content types (decoy run in the same path) '
           'gives the cold answer (harness shared with C05)'),
    H('h10_L7_type_units', h_type_units, lambda tier: [dict(little=l, schedule=sc, dup=d) for l in (True, False) for d in (False, True) for sc in ('cold', 'steps:0', 'steps:1', 'steps:2', 'full', 'lookup-last-first')],
      expect=('ok',), decoy=-1,
      desc='L7: type units found by signature, references through DW_FORM_ref_sig8 and the unit list after iter_TUs() was abandoned after 0-2 steps, run to the end, or after a lookup: cold answers (ground)'),
    H('h10_L3_dwarf_info_per_arguments', C8.h_plumbing, lambda tier: [dict(relname='.rela.debug_info', relocate=r, order='after', history=True) for r in (True, False)], expect=('ok',),
      desc='get_dwarf_info after an earlier call with the opposite relocate_dwarf_sections setting answers for its own arguments (harness shared with C08)'),
    H('h10_L3_both_frame_accessors', C6.h_scan, lambda tier: [dict(c, via='dwarfinfo') for c in C6._scan_instances(tier)[::9]], expect=('ok',),
      desc='L3: CFI_entries() and EH_CFI_entries() of one DWARFInfo holding both sections, the other accessor asked first: each answers for its own section (harness shared with C06)'),
    H('h10_L3_memo', h_memo, _memo_instances, expect=('ok',),
      desc='L3: after any single earlier query, after pairs / longer histories and after the whole alphabet in both orders, every query returns its cold answer (unit list, entry lists, abbreviation, '
           'line-program, type-unit and decoded-table memos)'),
    H('h10_L8_imported_units', h_imported, lambda tier: [dict(little=l, addr=a, form=f, schedule=sc) for (l, a, f) in ((True, 8, 0x1f20), (False, 4, 0x1c)) for sc in
                                                        ('cold', 'full-walk', 'two-full-walks', 'abandon:1', 'abandon:3', 'abandon:7', 'random-access', 'walk-then-attach')], expect=('ok',),
      desc='L8: a unit importing a partial unit of an attached supplementary file: iter_DIEs substitutes the imported tree on EVERY walk (cold, after complete or abandoned walks, after random access, '
           'after a walk made before the file was attached); imported-unit entries stay reachable by offset'),
    H('h10_L9_indexed_forms_cold', h_indexed_cold, lambda tier: [dict(little=l, addr=a, schedule=sc, second_first=sf, via_dwarfinfo=v) for (l, a) in ((True, 8), (False, 4))
                                                               for sc in ('cold', 'top-first', 'walk-first', 'abandoned-walk') for sf in (False, True) for v in (False, True)], expect=('ok',),
      desc='L9: entries with indexed forms (strx1, addrx1 - resolved through the base attributes of the top entry) fetched by offset on a unit of which nothing was parsed yet, after the top entry, after a walk: '
           'attribute values (symbolic indices, addresses, line bytes), attribute offsets and entry sizes are the same; walking afterwards yields each entry once'),
    H('h10_L4_links', h_links, _links_instances, expect=('ok',),
      desc='L4: for every tree shape (<= 4/5 entries) with and without sibling attributes, and the schedules cold / full iteration / iteration abandoned after 1-3 entries / children of every entry '
           'backwards / parents backwards / every child iterator abandoned after one step (stream left at a symbolic position): get_parent and iter_children equal the cold answers and the encoded '
           'nesting; sequential iteration equals random access by offset'),
]
