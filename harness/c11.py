"""C11 - the DWARF view is invariant under container encoding of the same debug data."""
from symx.api import H
from harness import c05 as C5
from spec import enc
from spec import elf_layout as L
from harness.elfkit import Image, open_elf
from harness.dwarfkit import unit_header, abbrev_table

PROPERTY = 'C11'
ASSUMPTIONS = [
    'zlib and CRC-32 are C libraries behind an FFI: environment, modelled by contract (streaming inflate of a registered payload - fed in one piece or in chunks - yields its plain bytes with a linear output profile; max_length stops consumption, the unconsumed input is returned in unconsumed_tail and must be fed again, flush() processes it; any other input is a corrupt stream; crc32 of the linked file = an arbitrary 32-bit value owned by the solver)',
    'DWARFInfo sees a section only through (stream, size, address, name): identical stream content and size in every container imply identical units, entries and tables (the parsers themselves are C04-C07)',
    'linked files are handed over by a harness stream loader (path resolution on disk is outside)',
]
STUBS = ['sx_zlib (contract model)', 'sx_binascii.crc32 (uninterpreted value)', 'SymStream (io.BytesIO)', 'SxPacker (struct.Struct)', 'harness stream loader']
OUTSIDE = ['real deflate streams at any level', 'on-disk path resolution', 'payloads longer than 16 bytes']


def _debug_payload(ctx, little):
    """a tiny but parseable .debug_info/.debug_abbrev pair whose attribute value is symbolic"""
    ab = abbrev_table([(1, 0x11, False, [(0x1c, 0x0b), (0x03, 0x08)])])
    v = ctx.byte('payload.v')
    name = [ctx.int_range('payload.n%d' % i, 1, 127) for i in range(2)]
    body = [1, v] + name + [0]
    h, hsz = unit_header(4, False, little, 8, 0, body_len=len(body))
    return h + body, ab, v, name


def _image(ctx, cls, little, container, info, abbrev, extra=None, declared=None, magic=None, comp_name='c', mips=False, big=None):
    """image with .debug_info in the given container (plain | gabi | zdebug); other sections plain.
    mips: a MIPS object, whose debug sections have the type SHT_MIPS_DWARF instead of SHT_PROGBITS"""
    img = Image(cls, little, e_type=1, machine=8 if mips else 62)
    img.section('', sh_type=0)
    pairs = []
    _section = img.section
    if mips:
        def typed(name, **kw):
            if name.startswith(('.debug_', '.zdebug_')):
                kw['sh_type'] = 0x7000001e
            return _section(name, **kw)
        img.section = typed
    if container == 'plain':
        off = img.blob(info)
        img.section('.debug_info', sh_type=1, sh_offset=off, sh_size=len(info))
    elif container == 'gabi':
        comp = ctx.bytes(comp_name, 5)
        chdr = L.encode('CHDR', cls, little, dict(ch_type=1, ch_size=len(info) if declared is None else declared, ch_addralign=1))
        off = img.blob(chdr + comp)
        img.section('.debug_info', sh_type=1, sh_flags=0x800, sh_offset=off, sh_size=len(chdr) + len(comp))
        pairs.append((comp, info))
    else:
        comp = ctx.bytes(comp_name, 5)
        hdr = (magic if magic is not None else [0x5a, 0x4c, 0x49, 0x42]) + enc.enc_int(len(info) if declared is None else declared, 8, False)
        off = img.blob(hdr + comp)
        img.section('.zdebug_info', sh_type=1, sh_offset=off, sh_size=len(hdr) + len(comp))
        pairs.append((comp, info))
    aname = '.zdebug_abbrev' if container == 'zdebug' else '.debug_abbrev'
    if container == 'zdebug':
        comp2 = ctx.bytes(comp_name + '2', 4)
        hdr2 = [0x5a, 0x4c, 0x49, 0x42] + enc.enc_int(len(abbrev), 8, False)
        off2 = img.blob(hdr2 + comp2)
        img.section(aname, sh_type=1, sh_offset=off2, sh_size=len(hdr2) + len(comp2))
        pairs.append((comp2, abbrev))
    else:
        off2 = img.blob(abbrev)
        img.section(aname, sh_type=1, sh_offset=off2, sh_size=len(abbrev))
    for name, data in (extra or []):
        o = img.blob(data)
        img.section(name, sh_type=1, sh_offset=o, sh_size=len(data))
    if big is not None:
        # a large, highly compressible string section in the same container (its compressed form is longer than one read chunk
        # of the inflating loop and inflates at more than 16:1)
        bplain, bcomp = big
        if container == 'plain':
            o = img.blob(bplain)
            img.section('.debug_str', sh_type=1, sh_offset=o, sh_size=len(bplain))
        elif container == 'gabi':
            chdr = L.encode('CHDR', cls, little, dict(ch_type=1, ch_size=len(bplain), ch_addralign=1))
            o = img.blob(chdr + bcomp)
            img.section('.debug_str', sh_type=1, sh_flags=0x800, sh_offset=o, sh_size=len(chdr) + len(bcomp))
            pairs.append((bcomp, bplain))
        else:
            hdr = [0x5a, 0x4c, 0x49, 0x42] + enc.enc_int(len(bplain), 8, False)
            o = img.blob(hdr + bcomp)
            img.section('.zdebug_str', sh_type=1, sh_offset=o, sh_size=len(hdr) + len(bcomp))
            pairs.append((bcomp, bplain))
    img.add_shstrtab()
    return img.build(), pairs


def _view(di):
    """what the DWARF layer sees / yields for the payload"""
    cu = next(di.iter_CUs())
    top = cu.get_top_DIE()
    return (di.debug_info_sec.size, list(di.debug_info_sec.stream.getvalue()), cu['unit_length'], top.tag,
            top.attributes['DW_AT_const_value'].value, top.attributes['DW_AT_name'].value, top.size)


def h_containers(ctx):
    cfg = ctx.cfg
    cls, little, container = cfg['elfclass'], cfg['little'], cfg['container']
    EF = ctx.lib('elf.elffile')
    info, ab, v, name = _debug_payload(ctx, little)
    big = None
    if cfg.get('big'):
        P, C = cfg['big']
        bplain = [0x41 + (i % 26) for i in range(P - 3)] + ctx.bytes('bigplain', 2) + [0]
        bcomp = [0x78, 0x9c] + [(i * 7 + 3) & 0xff for i in range(C - 6)] + ctx.bytes('bigcomp', 4)
        big = (bplain, bcomp)
    data, pairs = _image(ctx, cls, little, container, info, ab, mips=cfg.get('mips', False), big=big)
    ctx.use_zlib_model(pairs)
    elf = open_elf(ctx, data)
    ctx.check('containers/%s/has_dwarf_info' % container, bool(elf.has_dwarf_info()))
    di = elf.get_dwarf_info()
    got = _view(di)
    ctx.outcome('ok')
    if big is not None:
        ctx.check_eq('containers/%s/big/size' % container, di.debug_str_sec.size, len(big[0]))
        ctx.check_eq('containers/%s/big/content' % container, list(di.debug_str_sec.stream.getvalue()), list(big[0]))
    want = (len(info), list(info), len(info) - 4, 'DW_TAG_compile_unit', v, ctx.mkbytes(name), 2 + len(name) + 1)
    ctx.check_eq('containers/%s/size' % container, got[0], want[0])
    ctx.check_eq('containers/%s/stream-content' % container, got[1], want[1])
    ctx.check_eq('containers/%s/unit-and-entry' % container, list(got[2:]), list(want[2:]))
    ctx.check_eq('containers/%s/abbrev-content' % container, list(di.debug_abbrev_sec.stream.getvalue()), list(ab))
    ctx.check_eq('containers/%s/abbrev-size' % container, di.debug_abbrev_sec.size, len(ab))


def h_reject(ctx):
    cfg = ctx.cfg
    cls, little, container, fault = cfg['elfclass'], cfg['little'], cfg['container'], cfg['fault']
    EF = ctx.lib('elf.elffile')
    EXC = ctx.lib('common.exceptions')
    info, ab, v, name = _debug_payload(ctx, little)
    declared = None
    magic = None
    if fault == 'size':
        declared = ctx.uint('declared', 16)
    elif fault == 'magic':
        magic = ctx.bytes('magic', 4)
    data, pairs = _image(ctx, cls, little, container, info, ab, declared=declared, magic=magic)
    ctx.use_zlib_model(pairs)
    elf = open_elf(ctx, data)
    try:
        di = elf.get_dwarf_info()
        got = _view(di)
    except (EXC.ELFError, AssertionError):
        ctx.outcome('rejected')
        if fault == 'size':
            ctx.check('reject/%s/only-when-declared-size-differs' % container, declared != len(info))
        else:
            ctx.check('reject/%s/only-for-bad-magic' % container, ctx.lnot(ctx.eq(ctx.mkbytes(magic), b'ZLIB')))
        return
    ctx.outcome('ok')
    if fault == 'size':
        ctx.check('reject/%s/size-mismatch-is-rejected' % container, declared == len(info))
    else:
        ctx.check('reject/%s/bad-magic-is-rejected' % container, ctx.eq(ctx.mkbytes(magic), b'ZLIB'))
    ctx.check_eq('reject/%s/content-when-accepted' % container, got[1], list(info))


def h_short_zdebug(ctx):
    """a .zdebug section of at most 12 bytes is rejected"""
    cfg = ctx.cfg
    EF = ctx.lib('elf.elffile')
    EXC = ctx.lib('common.exceptions')
    n = cfg['n']
    img = Image(64, True, e_type=1)
    img.section('', sh_type=0)
    cells = ctx.bytes('z', n)
    off = img.blob(cells)
    img.section('.zdebug_info', sh_type=1, sh_offset=off, sh_size=n)
    img.add_shstrtab()
    ctx.use_zlib_model([])
    elf = open_elf(ctx, img.build())
    try:
        elf.get_dwarf_info()
    except (EXC.ELFError, AssertionError):
        ctx.outcome('rejected')
        ctx.check('short-zdebug/rejected', True)
        return
    except ctx.lib('elf.elffile').zlib.error:
        ctx.outcome('rejected')
        ctx.check('short-zdebug/rejected', True)
        return
    ctx.outcome('accepted')
    ctx.check('short-zdebug/rejected', False)


def h_presence(ctx):
    cfg = ctx.cfg
    EF = ctx.lib('elf.elffile')
    img = Image(64, True, e_type=1)
    img.section('', sh_type=0)
    present = cfg['present']
    for i, nm in enumerate(('.debug_info', '.zdebug_info', '.eh_frame')):
        if present[i]:
            o = img.blob([0, 0, 0, 0])
            img.section(nm, sh_type=1, sh_offset=o, sh_size=4)
    o = img.blob([0])
    img.section('.text', sh_type=1, sh_offset=o, sh_size=1)
    if cfg.get('lookalikes'):
        # sections whose names merely END with (or contain) the names asked for, and an unreferenced string in the name table
        # (slim LTO objects have .gnu.debuglto_.debug_info and no .debug_info): no debugging information of either naming
        for nm in ('.gnu.debuglto_.debug_info', '.gnu.debuglto_.zdebug_info', 'x.eh_frame', '.debug_info.dwo'):
            o = img.blob([0, 0])
            img.section(nm, sh_type=1, sh_offset=o, sh_size=2)
        img.add_shstrtab(extra=[ord(c) for c in '.gnu_debuglink\0'])
    else:
        img.add_shstrtab()
    data = img.build()
    elf = open_elf(ctx, data)
    ctx.outcome('ok')
    # each question also as the very first one asked of a freshly opened file
    ctx.check_eq('presence/strict/first-query/%s' % present, bool(EF.ELFFile(ctx.stream(data)).has_dwarf_info(strict=True)), bool(present[0] or present[1]))
    ctx.check_eq('presence/non-strict/first-query/%s' % present, bool(EF.ELFFile(ctx.stream(data)).has_dwarf_info()), bool(present[0] or present[1] or present[2]))
    ctx.check_eq('presence/has_dwarf_link/first-query', bool(EF.ELFFile(ctx.stream(data)).has_dwarf_link()), False)
    ctx.check_eq('presence/strict/%s' % present, bool(elf.has_dwarf_info(strict=True)), bool(present[0] or present[1]))
    ctx.check_eq('presence/non-strict/%s' % present, bool(elf.has_dwarf_info()), bool(present[0] or present[1] or present[2]))
    ctx.check_eq('presence/has_dwarf_link', bool(elf.has_dwarf_link()), False)


def h_debuglink(ctx):
    cfg = ctx.cfg
    cls, little, n = cfg['elfclass'], cfg['little'], cfg['namelen']
    EF = ctx.lib('elf.elffile')
    EXC = ctx.lib('common.exceptions')
    fname = [ctx.int_range('fn[%d]' % i, 1, 127) for i in range(n)]
    stored = ctx.uint('stored_crc', 32)
    computed = ctx.uint('computed_crc', 32)
    pad = 3 - n % 4
    link = fname + [0] + [0] * pad + enc.enc_int(stored, 4, little)
    info, ab, v, name = _debug_payload(ctx, little)
    extra = [('.gnu_debuglink', link)]
    # main file: stripped (no debug info) unless cfg['own_info']
    img = Image(cls, little, e_type=2)
    img.section('', sh_type=0)
    if cfg.get('own_info'):
        data_main, _ = _image(ctx, cls, little, 'plain', info, ab, extra=extra)
    else:
        o = img.blob(link)
        img.section('.gnu_debuglink', sh_type=1, sh_offset=o, sh_size=len(link))
        o2 = img.blob([0] * 4)
        img.section('.eh_frame', sh_type=1, sh_offset=o2, sh_size=4)
        img.add_shstrtab()
        data_main = img.build()
    # composition of containers: the linked debug file may itself keep part of its data in a supplementary file (dwz)
    sup = cfg.get('dbg_sup')
    sup_extra = None
    if sup == 'gnu_debugaltlink':
        sup_extra = [('.gnu_debugaltlink', [0x53, 0] + [7] * 20)]
    elif sup == 'debug_sup':
        sup_extra = [('.debug_sup', enc.enc_int(5, 2, little) + [0] + [0x53, 0] + [0])]
    data_dbg, _ = _image(ctx, cls, little, 'plain', info, ab, extra=sup_extra)
    data_sup, _ = _image(ctx, cls, little, 'plain', info, ab)
    calls = []

    def loader(path):
        calls.append(path)
        return ctx.stream(data_dbg if len(calls) == 1 else data_sup)
    ctx.use_crc_model(computed)
    try:
        elf = EF.ELFFile(ctx.stream(data_main), stream_loader=loader if cfg.get('loader', True) else None)
        l = elf.get_dwarf_link()
        ctx.check_eq('debuglink/filename', l.filename, ctx.mkbytes(fname))
        ctx.check_eq('debuglink/checksum', l.checksum, stored)
        ctx.check('debuglink/has_dwarf_link', bool(elf.has_dwarf_link()))
        follow = cfg.get('follow', True)
        should_follow = follow and cfg.get('loader', True) and not cfg.get('own_info')
        try:
            di = elf.get_dwarf_info(follow_links=follow)
        except EXC.ELFError:
            ctx.outcome('rejected')
            ctx.check('debuglink/rejected-only-on-checksum-mismatch', ctx.land(should_follow, stored != computed))
            return
        ctx.outcome('ok')
        if should_follow:
            ctx.check('debuglink/followed-only-when-checksum-matches', stored == computed)
            ctx.check_eq('debuglink/loader-called-with-the-encoded-name', calls[:1], [ctx.mkbytes(fname)])
            ctx.check_eq('debuglink/linked-content', list(di.debug_info_sec.stream.getvalue()), list(info))
            if sup:
                ctx.check_eq('debuglink/linked-file-with-%s/loader-calls' % sup, calls[1:], [b'S'])
                ctx.check('debuglink/linked-file-with-%s/supplementary-attached' % sup, di.supplementary_dwarfinfo is not None)
            else:
                ctx.check_eq('debuglink/one-loader-call', len(calls), 1)
        else:
            ctx.check_eq('debuglink/not-followed/no-loader-call', calls, [])
            if cfg.get('own_info'):
                ctx.check_eq('debuglink/own-content', list(di.debug_info_sec.stream.getvalue()), list(info))
            else:
                ctx.check('debuglink/not-followed/no-debug-info', di.debug_info_sec is None)
    finally:
        ctx.use_crc_model(None)


def h_suplink(ctx):
    cfg = ctx.cfg
    kind, little = cfg['kind'], cfg['little']
    EF = ctx.lib('elf.elffile')
    n = cfg['namelen']
    fname = [ctx.int_range('fn[%d]' % i, 1, 127) for i in range(n)]
    info, ab, v, name = _debug_payload(ctx, little)
    if kind == 'debug_sup':
        issup = ctx.uint('is_supplementary', 8)
        sec = enc.enc_int(5, 2, little) + [issup] + fname + [0] + [0]
        extra = [('.debug_sup', sec)]
    else:
        issup = 0
        sec = fname + [0] + ctx.bytes('buildid', 20)
        extra = [('.gnu_debugaltlink', sec)]
    data_main, _ = _image(ctx, 64, little, 'plain', info, ab, extra=extra)
    # the supplementary file may itself use any of the three containers
    supc = cfg.get('sup_container', 'plain')
    data_sup, pairs = _image(ctx, 64, little, supc, info, ab, comp_name='s')
    ctx.use_zlib_model(pairs)
    calls = []

    def loader(path):
        calls.append(path)
        return ctx.stream(data_sup)
    elf = EF.ELFFile(ctx.stream(data_main), stream_loader=loader if cfg.get('loader', True) else None)
    follow = cfg.get('follow', True)
    di = elf.get_dwarf_info(follow_links=follow)
    ctx.outcome('ok')
    ctx.check_eq('suplink/own-content', list(di.debug_info_sec.stream.getvalue()), list(info))
    designates = ctx.truth(issup == 0) if kind == 'debug_sup' else True
    should = follow and cfg.get('loader', True)
    if should:
        if ctx.fork(designates):
            ctx.check_eq('suplink/loader-called-with-the-encoded-name', calls, [ctx.mkbytes(fname)])
            ctx.check('suplink/supplementary-attached', di.supplementary_dwarfinfo is not None)
            if di.supplementary_dwarfinfo is not None:
                ctx.check_eq('suplink/supplementary-content', list(di.supplementary_dwarfinfo.debug_info_sec.stream.getvalue()), list(info))
        else:
            ctx.check_eq('suplink/is-supplementary-file-itself/no-call', calls, [])
            ctx.check('suplink/none', di.supplementary_dwarfinfo is None)
    else:
        ctx.check_eq('suplink/not-followed/no-call', calls, [])
        ctx.check('suplink/not-followed/none', di.supplementary_dwarfinfo is None)
    ctx.check_eq('suplink/parse', di.parse_debugsupinfo(), ctx.mkbytes(fname) if (kind != 'debug_sup' or ctx.fork(issup == 0)) else None)


TIER_PARAMS = {'quick': {'conc_cap': 300}, 'thorough': {'conc_cap': 600}}
ENVS = [(64, True), (32, False), (64, False), (32, True)]

HARNESSES = [
    H('h11_1_containers', h_containers, lambda tier: [dict(elfclass=c, little=l, container=k) for c, l in (ENVS if tier == 'thorough' else ENVS[:2]) for k in ('plain', 'gabi', 'zdebug')] +
                   [dict(elfclass=c, little=l, container=k, mips=True) for c, l in ENVS[1:3] for k in ('plain', 'gabi', 'zdebug')] +
                   [dict(elfclass=c, little=l, container=k, big=b) for c, l in ENVS[:2] for k in ('plain', 'gabi', 'zdebug') for b in ((100000, 4101), (70000, 9000))],
      expect=('ok',),
      desc='the same symbolic debug payload stored plainly, SHF_COMPRESSED (Elf32/64_Chdr) and as legacy .zdebug ("ZLIB" + 8-byte big-endian size): the stream handed to DWARFInfo has '
           'content P and size |P| in all three, and the unit / entry / attribute decoded from it are identical'),
    H('h11_2_reject', h_reject, lambda tier: [dict(elfclass=c, little=l, container=k, fault=f) for c, l in ENVS[:2] for k, f in (('gabi', 'size'), ('zdebug', 'size'), ('zdebug', 'magic'))],
      expect=('ok', 'rejected'),
      desc='declared size (symbolic) different from the inflated size is rejected in both compressed formats; a .zdebug magic (4 symbolic bytes) other than ZLIB is rejected'),
    H('h11_2_short_zdebug', h_short_zdebug, lambda tier: [dict(n=n) for n in (0, 4, 12)], expect=('rejected',), desc='.zdebug sections of at most 12 bytes are rejected'),
    H('h11_3_presence', h_presence, lambda tier: [dict(present=[a, b, c], lookalikes=k) for a in (0, 1) for b in (0, 1) for c in (0, 1) for k in (False, True)], expect=('ok',),
      desc='has_dwarf_info(strict) over the 2^3 presence combinations of .debug_info / .zdebug_info / .eh_frame'),
    H('h11_4_debuglink', h_debuglink,
      lambda tier: [dict(elfclass=c, little=l, namelen=n, follow=f, loader=ld, own_info=o) for c, l in ENVS[:2] for n in ((1, 3, 4, 6) if tier == 'quick' else range(1, 13))
                    for (f, ld, o) in ((True, True, False), (False, True, False), (True, False, False), (True, True, True))] +
                   [dict(elfclass=c, little=l, namelen=2, follow=True, loader=True, own_info=False, dbg_sup=k) for c, l in ENVS[:2] for k in ('gnu_debugaltlink', 'debug_sup')],
      expect=('ok', 'rejected'),
      desc='.gnu_debuglink: file name of every length residue (padding to 4) and stored checksum (symbolic) parsed; the link is followed iff follow_links, a loader exists and the file has no '
           'debug info of its own; followed iff stored == computed CRC (both symbolic), ELFError otherwise; loader called with the encoded name'),
    H('h11_6_line_names_behind_sup', C5.h_header,
      lambda tier: [c for c in C5._header_instances(tier) if c['ver'] == 5 and any(f in ('strp_sup', 'GNU_strp_alt') for k in ('dir_format', 'file_format') for _, f in c['shape'].get(k, []))],
      expect=('ok',),
      desc='line-table directory and file names stored in the supplementary file (DW_FORM_strp_sup / DW_FORM_GNU_strp_alt in a v5 header) resolve through the supplementary '
           'string table, next to names of the same header kept in .debug_str / .debug_line_str (harness shared with C05)'),
    H('h11_5_suplink', h_suplink, lambda tier: [dict(kind=k, little=l, namelen=n, follow=f, loader=ld) for k in ('debug_sup', 'gnu_debugaltlink') for l in (True, False) for n in (1, 4)
                                                for (f, ld) in ((True, True), (False, True), (True, False))] +
                                               [dict(kind=k, little=l, namelen=2, follow=True, loader=True, sup_container=c) for k in ('debug_sup', 'gnu_debugaltlink') for l in (True, False) for c in ('gabi', 'zdebug')], expect=('ok',),
      desc='.debug_sup (is_supplementary symbolic) / .gnu_debugaltlink: file name parsed, supplementary file loaded through the loader only when follow_links and a loader exist'),
]
