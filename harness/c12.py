"""C12 - DWARF expressions are split into exactly their operations and operands."""
from symx.api import H
from spec import dwarf_ops as OPS
from spec import registry as REG

PROPERTY = 'C12'
ASSUMPTIONS = [
    'expressions are generated from skeletons (operation sequence, LEB128 byte counts, block sizes fixed per instance); every operand VALUE is symbolic',
    'io.BytesIO / struct modelled by SymStream / SxPacker',
]
STUBS = ['SymStream (io.BytesIO)', 'SxPacker (struct.Struct)']
OUTSIDE = [
    'LEB128 operands longer than 3 (quick) / 5 (thorough) bytes (LEB decoding for up to 12 bytes is C16)',
    'blocks longer than 3 (quick) / 8 (thorough) bytes; nesting deeper than 3',
    'DW_OP_GNU_parameter_ref in 64-bit DWARF (the GNU extension fixes 4 bytes; the library uses the offset size): checked for DWARF32 only',
    'DW_OP_call_ref / DW_OP_implicit_pointer width in DWARF version 2 units',
]

ENVS_Q = [dict(little=True, addr=8, fmt=32), dict(little=False, addr=4, fmt=64)]
ENVS_T = [dict(little=l, addr=a, fmt=f) for l in (True, False) for a in (4, 8) for f in (32, 64)]

NESTED_Q = [[], [[0x55, []]], [[0x75, [{'leb': 2}]], [0x96, []]], [[0xa3, [{'nested': [[0xf3, [{'nested': [[0x50, []]]}]]]}]]]]


def _parser(ctx, e):
    S = ctx.lib('dwarf.structs')
    X = ctx.lib('dwarf.dwarf_expr')
    structs = S.DWARFStructs(little_endian=e['little'], dwarf_format=e['fmt'], address_size=e['addr'], dwarf_version=4)
    return X.DWARFExprParser(structs), X


def _as_tuple(ctx, op):
    """DWARFExprOp -> (op, name, args, offset) with nested expressions converted likewise"""
    args = []
    for a in op.args:
        if isinstance(a, list) and a and hasattr(a[0], 'op_name'):
            args.append([_as_tuple(ctx, x) for x in a])
        else:
            args.append(a)
    return (op.op, op.op_name, args, op.offset)


def _strip_names(ops):
    out = []
    for (op, name, args, off) in ops:
        a2 = []
        for a in args:
            if isinstance(a, list) and a and isinstance(a[0], tuple) and len(a[0]) == 4:
                a2.append(_strip_names(a))
            else:
                a2.append(a)
        out.append((op, a2, off))
    return out


def h_one_op(ctx):
    cfg = ctx.cfg
    e = cfg['env']
    opcode = cfg['opcode']
    parser, X = _parser(ctx, e)
    EXC = ctx.lib('common.exceptions')
    E = OPS.Env(e['little'], e['addr'], e['fmt'] // 8)
    if cfg.get('refusals'):
        # a long-running consumer: many expressions that were (rightly) refused earlier in the same process - unassigned opcodes, truncated
        # operands, also inside nested blocks - by this parser and by another one.  A refusal must leave nothing behind.
        other, _ = _parser(ctx, dict(e, addr=4 if e['addr'] == 8 else 8))
        bad = [[0xfb, 1], [0x03, 1, 2], [0xa3, 2, 0x03, 1], [0xa3, 3, 0xa3, 1, 0xfc], [0x9e, 5, 1], [0x02]]
        for i in range(cfg['refusals']):
            try:
                (parser if i % 3 else other).parse_expr(bad[i % len(bad)])
            except Exception:
                pass
    if opcode not in OPS.OPERANDS:
        # unassigned opcode: must not be accepted as something else
        tail = ctx.bytes('t', 2)
        try:
            r = parser.parse_expr([opcode] + tail)
        except Exception:
            ctx.outcome('rejected')
            ctx.check('unassigned-opcode-rejected', True)
            return
        ctx.outcome('accepted-unknown')
        ctx.check('unassigned-opcode-rejected', False)
        return
    sk = [tuple(x) for x in cfg['prefix']] + [(opcode, cfg['shapes'])] + [(0x96, [])]
    data, want = OPS.gen_expr(ctx, E, sk)
    r = parser.parse_expr(data)
    ctx.outcome('ok')
    got = [_as_tuple(ctx, op) for op in r]
    ctx.check_eq('count', len(got), len(want))
    if len(got) != len(want):
        return
    k = len(cfg['prefix'])
    name = OPS.OPERANDS[opcode][0]
    ctx.check_eq('%s/op' % name, got[k][0], opcode)
    ctx.check_eq('%s/name' % name, got[k][1], name)
    ctx.check_eq('%s/offset' % name, got[k][3], want[k][3])
    ctx.check_eq('%s/args' % name, _strip_names([got[k]])[0][1], _strip_names([want[k]])[0][1])
    # exact consumption: the trailing DW_OP_nop is found at the expected offset
    ctx.check_eq('%s/next-offset' % name, got[k + 1][3], want[k + 1][3])
    ctx.check_eq('%s/next-op' % name, got[k + 1][0], 0x96)
    ctx.check_eq('%s/all' % name, _strip_names(got), _strip_names(want))
    # nested names
    ctx.check_eq('%s/nested-names' % name, [g[1] for g in _flatten(got)], [w[1] for w in _flatten(want)])


def _flatten(ops):
    out = []
    for t in ops:
        out.append(t)
        for a in t[2]:
            if isinstance(a, list) and a and isinstance(a[0], tuple) and len(a[0]) == 4:
                out += _flatten(a)
    return out


def h_wasm_bad_kind(ctx):
    e = ctx.cfg['env']
    parser, X = _parser(ctx, e)
    EXC = ctx.lib('common.exceptions')
    kind = ctx.uint('kind', 8)
    ctx.assume(kind > 3)
    tail = ctx.bytes('t', 4)
    try:
        parser.parse_expr([0xed, kind] + tail)
    except EXC.DWARFError:
        ctx.outcome('ok')
        ctx.check('wasm/unknown-kind-rejected', True)
        return
    ctx.outcome('accepted')
    ctx.check('wasm/unknown-kind-rejected', False)


def h_names(ctx):
    """names <-> opcodes: the library's tables restricted to operation names (range markers lo_user/hi_user excluded)"""
    X = ctx.lib('dwarf.dwarf_expr')
    n2o = dict(X.DW_OP_name2opcode)
    o2n = X.DW_OP_opcode2name
    markers = ('DW_OP_lo_user', 'DW_OP_hi_user')
    names = sorted(n for n in n2o if n not in markers)
    seen = {}
    for n in names:
        v = n2o[n]
        ctx.check('injective/%s' % n, v not in seen)
        seen[v] = n
        ctx.check('inverse/%s' % n, o2n.get(v) == n)
        ctx.check('byte-range/%s' % n, 0 <= v <= 255)
    # every opcode of the reference operand table has a name, and the registry knows it under that value
    for op, (name, kinds) in sorted(OPS.OPERANDS.items()):
        ctx.check('named/%s' % name, n2o.get(name) == op)
        rv = REG.values(name)
        if rv:
            ctx.check('registry/%s' % name, op in rv)
    ctx.outcome('ok')


def h_pairs(ctx):
    """two operations back to back, from one representative per operand class"""
    cfg = ctx.cfg
    e = cfg['env']
    parser, X = _parser(ctx, e)
    E = OPS.Env(e['little'], e['addr'], e['fmt'] // 8)
    sk = [tuple(x) for x in cfg['ops']]
    data, want = OPS.gen_expr(ctx, E, sk)
    r = parser.parse_expr(data)
    ctx.outcome('ok')
    got = [_as_tuple(ctx, op) for op in r]
    ctx.check_eq('pair/%s+%s' % (OPS.OPERANDS[sk[0][0]][0], OPS.OPERANDS[sk[1][0]][0]), _strip_names(got), _strip_names(want))
    ctx.check_eq('pair/names', [g[1] for g in _flatten(got)], [w[1] for w in _flatten(want)])


def h_envs(ctx):
    """the same skeleton parsed for several units in turn (different offset size / address size / byte order): what one parser
    has seen must not leak into another (dispatch tables and nested parsers are per unit environment)"""
    cfg = ctx.cfg
    sk = [tuple(x) for x in cfg['ops']]
    for i, e in enumerate(cfg['envs']):
        parser, X = _parser(ctx, e)
        E = OPS.Env(e['little'], e['addr'], e['fmt'] // 8)
        data, want = OPS.gen_expr(ctx, E, sk, nm='u%d' % i)
        r = parser.parse_expr(data)
        got = [_as_tuple(ctx, op) for op in r]
        ctx.check_eq('envs/%d/fmt%d-addr%d-%s' % (i, e['fmt'], e['addr'], 'le' if e['little'] else 'be'), _strip_names(got), _strip_names(want))
    ctx.outcome('ok')


_ENV_DEP_NESTED = [[0x9a, []], [0x03, []], [0xa0, [{'leb': 1}]], [0x0c, []]]


def _env_instances(tier):
    base = dict(little=True, addr=8, fmt=32)
    out = []
    for key, a, b in (('fmt', 32, 64), ('addr', 4, 8), ('little', True, False)):
        for x, y in ((a, b), (b, a)):
            envs = [dict(base, **{key: x}), dict(base, **{key: y}), dict(base, **{key: x})]
            out.append(dict(envs=envs, ops=[[0xa3, [{'nested': _ENV_DEP_NESTED}]], [0x9a, []], [0x03, []]]))
            out.append(dict(envs=envs, ops=[[0xf3, [{'nested': [[0xa3, [{'nested': _ENV_DEP_NESTED}]]]}]], [0x96, []]]))
    return out


def h_fresh_results(ctx):
    """parse_expr is stateless: the operand lists it returns are the caller's (no two results share one, and what a caller does to
    a result cannot show up in a later parse of the same bytes)"""
    e = ctx.cfg['env']
    parser, X = _parser(ctx, e)
    data = [0x55, 0x55, 0x96, 0x93, 0x04, 0x96, 0x9f]
    r1 = parser.parse_expr(data)
    lists = [op.args for op in r1]
    ctx.check('fresh/no-shared-operand-lists', all(a is not b for i, a in enumerate(lists) for b in lists[i + 1:]))
    for op in r1:
        op.args.append(99)
    r2 = parser.parse_expr(data)
    ctx.check_eq('fresh/second-parse-unaffected-by-edits-to-the-first', [(op.op, list(op.args), op.offset) for op in r2],
                 [(0x55, [], 0), (0x55, [], 1), (0x96, [], 2), (0x93, [4], 3), (0x96, [], 5), (0x9f, [], 6)])
    ctx.outcome('ok')


def h_empty(ctx):
    e = ctx.cfg['env']
    parser, X = _parser(ctx, e)
    ctx.check_eq('empty', parser.parse_expr([]), [])
    ctx.outcome('ok')


def _one_op_instances(tier):
    lebmax = 3 if tier == 'quick' else 5
    blobmax = 3 if tier == 'quick' else 8
    envs = ENVS_Q if tier == 'quick' else ENVS_T
    out = []
    for e in envs:
        for opcode in range(256):
            if opcode not in OPS.OPERANDS:
                out.append(dict(env=e, opcode=opcode))
                continue
            if opcode == 0xfa and e['fmt'] == 64:
                continue
            combos = OPS.shapes_for(opcode, lebmax, blobmax, NESTED_Q)
            if opcode in (0x10, 0x11, 0x91, 0x70, 0x92) and e is envs[0]:
                # operands at the 64-bit boundary: LEB128 encodings of 9, 10 and (padded) 11 bytes
                kinds = OPS.OPERANDS[opcode][1]
                combos = list(combos) + [[{'leb': n} if k in ('uleb', 'sleb') and i == len(kinds) - 1 else {'leb': 1} for i, k in enumerate(kinds)] for n in (9, 10, 11)]
            for shapes in combos:
                for prefix in ([], [[0x75, [{'leb': 2}]]]):
                    if prefix and (0x30 <= opcode <= 0x8f) and opcode not in (0x30, 0x50, 0x70, 0x8f):
                        continue
                    out.append(dict(env=e, opcode=opcode, shapes=shapes, prefix=prefix))
    base = [c for c in out if c.get('opcode') in (0x9a, 0xa3, 0x10, 0x9e) and not c.get('prefix')]
    out += [dict(c, refusals=r) for c in base[::3] for r in (70, 300, 1100)]
    return out


_REPS = [(0x03, []), (0x09, []), (0x0e, []), (0x10, [{'leb': 2}]), (0x11, [{'leb': 2}]), (0x92, [{'leb': 1}, {'leb': 2}]), (0x9a, []),
         (0x9e, [{'blob': 2}]), (0xa3, [{'nested': [[0x55, []]]}]), (0xa4, [{'blob': 2, 'leb': 1}]), (0xa6, [{'leb': 1}]),
         (0xed, [{'wasm': 3}]), (0xed, [{'wasm': 1, 'leb': 2}]), (0x96, []), (0x94, [])]


def _pair_instances(tier):
    envs = ENVS_Q[:1] if tier == 'quick' else ENVS_T
    reps = _REPS if tier == 'thorough' else _REPS[::2]
    return [dict(env=e, ops=[list(a), list(b)]) for e in envs for a in reps for b in reps]


HARNESSES = [
    H('h12_1_one_op', h_one_op, _one_op_instances, expect=('ok', 'rejected'),
      desc='every opcode byte 0..255: after 0 or 1 preceding operations, the operation with symbolic operand values and a trailing '
           'DW_OP_nop; parse result (op, name, args, offset) and exact consumption equal the DWARF 5 table 7.9 reference; unassigned '
           'opcodes must be rejected. Includes nested entry_value to depth 3, typed constants, implicit_value blocks, WASM kinds 0-3',
      bounds={'quick': 'LEB operands 1..3 bytes, blocks 0..3 bytes, 2 environments', 'thorough': 'LEB 1..5 bytes, blocks 0..8, all 8 environments'}),
    H('h12_2_wasm_bad_kind', h_wasm_bad_kind, lambda tier: [dict(env=e) for e in ENVS_Q], expect=('ok',),
      desc='DW_OP_WASM_location with any kind byte > 3 is rejected with DWARFError'),
    H('h12_3_names', h_names, lambda tier: [dict()], expect=('ok',),
      desc='DW_OP_name2opcode injective on operation names, DW_OP_opcode2name its inverse, reference opcodes named and consistent with the registry (ground obligations)'),
    H('h12_4_pairs', h_pairs, _pair_instances, decoy=24, expect=('ok',),
      desc='ordered pairs of operations, one representative per operand class, symbolic operand values'),
    H('h12_6_envs', h_envs, _env_instances, expect=('ok',),
      desc='one expression skeleton with environment-dependent operands inside nested entry_value blocks (call_ref, addr, implicit_pointer, const4u), '
           'parsed in turn by the parsers of three units that differ in offset size, address size or byte order'),
    H('h12_7_fresh_results', h_fresh_results, lambda tier: [dict(env=e) for e in ENVS_Q], expect=('ok',), decoy=-1,
      desc='results of parse_expr share no operand lists and a later parse is unaffected by edits to an earlier result (ground)'),
    H('h12_5_empty', h_empty, lambda tier: [dict(env=ENVS_Q[0])], expect=('ok',), desc='empty expression'),
]
