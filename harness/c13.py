"""C13 - address-range and name lookup tables resolve to the right compilation unit."""
from symx.api import H
from spec import enc
from harness.dwarfkit import mk_dwarfinfo, unit_header, abbrev_table

PROPERTY = 'C13'
ASSUMPTIONS = [
    'address ranges of one .debug_aranges section are pairwise disjoint (unsorted, adjacent allowed; empty ranges at a non-zero address may lie anywhere); 32-bit DWARF format (as the statement says)',
    'tables are generated from skeletons (number of sets / tuples / names and unit sizes fixed per instance); addresses, lengths, offsets and header values are symbolic',
]
STUBS = ['SymStream (io.BytesIO)', 'SxPacker (struct.Struct)']
OUTSIDE = ['64-bit format lookup tables', 'segmented address ranges', 'more than 2 sets x 2 tuples / names']


def _aranges_section(ctx, cfg):
    little = cfg['little']
    sec = []
    want = []
    for s, ntup in enumerate(cfg['sets']):
        # address_size is a field of every set header: the sets of one section may differ (objects for different targets / code models linked together)
        addr = cfg['addrs'][s] if cfg.get('addrs') else cfg['addr']
        info_off = ctx.uint('set%d.info_offset' % s, 32)
        ver = ctx.uint('set%d.version' % s, 16)
        hdr_rest = enc.enc_int(ver, 2, little) + enc.enc_int(info_off, 4, little) + [addr, 0]
        start = len(sec)
        hlen = 4 + len(hdr_rest)
        pad = (-(hlen)) % (2 * addr)          # tuples are aligned to twice the address size from the start of the set header
        tuples = []
        body = []
        for t in range(ntup):
            b = ctx.uint('set%d.t%d.begin' % (s, t), 8 * addr)
            ln = ctx.uint('set%d.t%d.len' % (s, t), 8 * addr)
            if cfg.get('empty_ok'):
                # an empty range at a non-zero address is a legal tuple (only the pair (0, 0) terminates a set): it contains no address
                ctx.assume(ctx.land(ctx.lor(ln > 0, b != 0), b + ln <= (1 << (8 * addr))))
            else:
                ctx.assume(ctx.land(ln > 0, b + ln <= (1 << (8 * addr))))
            tuples.append((b, ln))
            body += enc.enc_int(b, addr, little) + enc.enc_int(ln, addr, little)
        body += [0] * (2 * addr)
        unit_length = len(hdr_rest) + pad + len(body)
        sec += enc.enc_int(unit_length, 4, little) + hdr_rest + [0] * pad + body
        for b, ln in tuples:
            want.append(dict(begin=b, length=ln, info_offset=info_off, unit_length=unit_length, version=ver, address_size=addr, segment_size=0))
    return sec, want


def h_aranges(ctx):
    cfg = ctx.cfg
    little, addr = cfg['little'], cfg['addr']
    sec, want = _aranges_section(ctx, cfg)
    # ranges pairwise disjoint
    for i in range(len(want)):
        for j in range(i + 1, len(want)):
            a, b = want[i], want[j]
            # (an empty range contains no address: it may lie anywhere, also inside another range)
            ctx.assume(ctx.lor(a['length'] == 0, b['length'] == 0, a['begin'] + a['length'] <= b['begin'], b['begin'] + b['length'] <= a['begin']))
    di, streams = mk_dwarfinfo(ctx, little, addr, debug_aranges=sec)
    ar = di.get_aranges()
    ctx.outcome('ok')
    # every encoded tuple is exposed with its set header (entries are sorted by begin address)
    ents = ar.entries
    ctx.check_eq('aranges/entries/count', len(ents), len(want))
    if len(ents) == len(want):
        for w in want:
            ctx.check('aranges/entries/tuple-present', ctx.lor(*[ctx.land(e.begin_addr == w['begin'], e.length == w['length'], e.info_offset == w['info_offset'],
                                                                          e.unit_length == w['unit_length'], e.version == w['version'],
                                                                          e.address_size == w['address_size'], e.segment_size == 0) for e in ents]))
        for a, b in zip(ents, ents[1:]):
            ctx.check('aranges/entries/sorted', a.begin_addr <= b.begin_addr)
    q = ctx.uint('query', 8 * max(cfg.get('addrs') or [addr]))
    got = ar.cu_offset_at_addr(q)
    hit = None
    for w in want:
        if ctx.fork(ctx.land(w['begin'] <= q, q < w['begin'] + w['length'])):
            hit = w
            break
    if hit is None:
        ctx.outcome('miss')
        ctx.check('aranges/lookup/none-outside-every-range', got is None)
    else:
        ctx.check_eq('aranges/lookup/offset-of-containing-range', got, hit['info_offset'])


def h_aranges_absent(ctx):
    di, _ = mk_dwarfinfo(ctx, True, 8, debug_info=[0])
    ctx.outcome('ok')
    ctx.check('aranges/absent-none', di.get_aranges() is None)


NAMES = ['main', 'x', 'café', 'T<int>']


def h_namelut(ctx):
    cfg = ctx.cfg
    little, which = cfg['little'], cfg['which']
    sec = []
    want = []
    hdrs = []
    ni = 0
    for s, nn in enumerate(cfg['sets']):
        cu_off = ctx.uint('set%d.cu' % s, 32)
        cu_len = ctx.uint('set%d.culen' % s, 32)
        ver = ctx.uint('set%d.version' % s, 16)
        body = []
        for k in range(nn):
            d = ctx.uint('set%d.n%d.die' % (s, k), 32)
            ctx.assume(d != 0)
            nm = NAMES[ni % len(NAMES)]
            ni += 1
            body += enc.enc_int(d, 4, little) + list(nm.encode('utf-8')) + [0]
            want.append((nm, cu_off, cu_off + d))
        body += [0, 0, 0, 0]
        # producers may pad a set after its terminator (unit_length covers the padding): the next set starts where unit_length says
        body += [0xAA] * (cfg.get('slack') or [0] * (s + 1))[s]
        rest = enc.enc_int(ver, 2, little) + enc.enc_int(cu_off, 4, little) + enc.enc_int(cu_len, 4, little)
        ul = len(rest) + len(body)
        sec += enc.enc_int(ul, 4, little) + rest + body
        hdrs.append((ul, ver, cu_off, cu_len))
    # the other name table of the file exists too (one set, one name) and is asked first: each accessor answers from its own section
    other = 'debug_pubtypes' if which == 'debug_pubnames' else 'debug_pubnames'
    obody = enc.enc_int(0x21, 4, little) + list(b'zzz') + [0] + [0, 0, 0, 0]
    orest = enc.enc_int(2, 2, little) + enc.enc_int(0, 4, little) + enc.enc_int(0x40, 4, little)
    osec = enc.enc_int(len(orest) + len(obody), 4, little) + orest + obody
    di, _ = mk_dwarfinfo(ctx, little, 8, **{which: sec, other: osec})
    olut = di.get_pubtypes() if which == 'debug_pubnames' else di.get_pubnames()
    ctx.check_eq('namelut/other-table', list(olut), ['zzz'])
    lut = di.get_pubnames() if which == 'debug_pubnames' else di.get_pubtypes()
    if cfg.get('order') == 'headers-first':
        lut.get_cu_headers()
    ctx.outcome('ok')
    ctx.check_eq('namelut/len', len(lut), len(want))
    ctx.check_eq('namelut/order', list(lut), [w[0] for w in want])
    for nm, cu, die in want:
        e = lut.get(nm)
        ctx.check('namelut/present', e is not None)
        if e is not None:
            ctx.check_eq('namelut/entry', [e.cu_ofs, e.die_ofs], [cu, die])
            ctx.check_eq('namelut/getitem', [lut[nm].cu_ofs, lut[nm].die_ofs], [cu, die])
    ctx.check('namelut/absent-none', lut.get('nope') is None)
    ctx.check_eq('namelut/items', [(k, v.cu_ofs, v.die_ofs) for k, v in lut.items()], want)
    # the remaining views of the same table
    ctx.check_eq('namelut/keys', list(lut.keys()), [w[0] for w in want])
    ctx.check_eq('namelut/values', [(v.cu_ofs, v.die_ofs) for v in lut.values()], [(w[1], w[2]) for w in want])
    ctx.check_eq('namelut/contains', ['nope' in lut] + [w[0] in lut for w in want], [False] + [True] * len(want))
    ents = lut.get_entries()
    ctx.check_eq('namelut/get_entries', [(k, v.cu_ofs, v.die_ofs) for k, v in ents.items()], want)
    hs = lut.get_cu_headers()
    ctx.check_eq('namelut/headers', [(h.unit_length, h.version, h.debug_info_offset, h.debug_info_length) for h in hs], hdrs)


def h_namelut_absent(ctx):
    di, _ = mk_dwarfinfo(ctx, True, 8, debug_info=[0])
    ctx.outcome('ok')
    ctx.check('namelut/absent-none', di.get_pubnames() is None and di.get_pubtypes() is None)
    di2, _ = mk_dwarfinfo(ctx, True, 8, debug_pubtypes=[])
    lut = di2.get_pubtypes()
    ctx.check('namelut/empty-section', lut is None or len(lut) == 0)


def h_cu_lookup(ctx):
    cfg = ctx.cfg
    little = cfg['little']
    EXC = ctx.lib('common.exceptions')
    units = []
    sec = []
    for u, (ver, fmt64, body) in enumerate(cfg['units']):
        h, hsz = unit_header(ver, fmt64, little, 8, abbrev_off=0, body_len=body)
        units.append(dict(off=len(sec), size=len(h) + body))
        sec += h + [0] * body
    di, _ = mk_dwarfinfo(ctx, little, 8, debug_info=sec, debug_abbrev=[0])
    for w in cfg.get('warm', []):
        di.get_CU_at(units[w]['off'])
    ref = ctx.int_range('refaddr', 0, len(sec) + 2)
    if cfg['op'] == 'containing':
        try:
            cu = di.get_CU_containing(ref)
        except EXC.DWARFError:
            ctx.outcome('outside')
            ctx.check('cu/containing/error-only-beyond-section', ref >= len(sec))
            return
        ctx.outcome('ok')
        ctx.check('cu/containing/inside-section', ref < len(sec))
        r = ctx.concretize(ref)
        want = [x for x in units if x['off'] <= r < x['off'] + x['size']]
        ctx.check('cu/containing/unit-exists', len(want) == 1)
        if want:
            ctx.check_eq('cu/containing/unit', [cu.cu_offset, cu.size], [want[0]['off'], want[0]['size']])
    else:
        which = ctx.int_range('which', 0, len(units) - 1)
        off = ctx.select([x['off'] for x in units], which)
        cu = di.get_CU_at(off)
        ctx.outcome('ok')
        ctx.check_eq('cu/at/starts-there', cu.cu_offset, off)
        ctx.check('cu/at/same-object-again', di.get_CU_at(off) is cu)
        k = ctx.concretize(which)
        ctx.check_eq('cu/at/size', cu.size, units[k]['size'])
    # the cache stays sorted and duplicate free whatever the order of requests
    offs = list(di._cu_offsets_map)
    ctx.check('cu/cache-sorted-unique', all(a < b for a, b in zip(offs, offs[1:])) and len(offs) == len(di._cu_cache))
    ctx.check_eq('cu/iter-after', [c.cu_offset for c in di.iter_CUs()], [x['off'] for x in units])


UNITS3 = [(4, False, 3), (5, False, 1), (2, True, 6)]
UNITS4 = [(3, False, 2), (4, True, 1), (5, False, 4), (4, False, 0)]


def _lookup_instances(tier):
    out = []
    for little in (True, False):
        # every prior cache state: each ordered selection of units fetched by offset beforehand (sparse caches included)
        warms = [[]] + [[a] for a in range(3)] + [[a, b] for a in range(3) for b in range(3) if a != b] + [[0, 1, 2], [2, 1, 0], [1, 2, 0]]
        for warm in warms:
            out.append(dict(little=little, units=UNITS3, warm=warm, op='containing'))
            if len(warm) != 1 or tier == 'thorough':
                out.append(dict(little=little, units=UNITS3, warm=warm, op='at'))
        for warm in ([0, 3], [3, 0], [1, 3], [3], [0, 2], [3, 1, 0]):
            out.append(dict(little=little, units=UNITS4, warm=warm, op='containing'))
    out.append(dict(little=True, units=[(4, False, 0)], warm=[], op='containing'))
    return out


TIER_PARAMS = {'quick': {'conc_cap': 300}, 'thorough': {'conc_cap': 600}}

HARNESSES = [
    H('h13_1_aranges', h_aranges,
      lambda tier: [dict(little=l, addr=a, sets=s) for l, a in ((True, 8), (False, 4), (True, 4), (False, 8))
                    for s in ([0], [1], [2], [1, 1], [0, 2]) + (([2, 2], [1, 0, 1]) if tier == 'thorough' else ())] +
                   [dict(little=l, addr=a, sets=s, addrs=ad) for l, a in ((True, 8), (False, 4)) for s, ad in (([1, 1], [4, 8]), ([1, 1], [8, 4]), ([1, 0, 1], [4, 8, 4]))] +
                   [dict(little=l, addr=a, sets=s, empty_ok=True) for l, a in ((True, 8), (False, 4)) for s in ([1], [2], [1, 1])], expect=('ok', 'miss'),
      desc='ARanges over generated sections (1-3 sets x 0-2 tuples, tuple alignment padding, header values symbolic) with symbolic begin/length (sets of one section with different address sizes included) under the disjointness '
           'assumption and a symbolic query address: offset of the unique containing range, None outside every range (also for a table without tuples); entries expose every tuple with its set header, sorted'),
    H('h13_1_aranges_absent', h_aranges_absent, lambda tier: [dict()], expect=('ok',), desc='no .debug_aranges section'),
    H('h13_2_namelut', h_namelut,
      lambda tier: [dict(little=l, which=w, sets=s, order=o) for l in (True, False) for w in ('debug_pubnames', 'debug_pubtypes') for s in ([0], [2], [1, 2], [0, 1])
                    for o in ('entries-first', 'headers-first')] +
                   [dict(little=l, which=w, sets=s, order=o, slack=k) for l in (True, False) for w in ('debug_pubnames', 'debug_pubtypes')
                    for s, k in (([1, 2], [4, 0]), ([1, 1, 1], [3, 1, 2]), ([0, 1], [8, 0])) for o in ('entries-first', 'headers-first')], expect=('ok',),
      desc='NameLUT over generated .debug_pubnames/.debug_pubtypes (1-3 sets x 0-2 names incl. non-ASCII, offsets symbolic, optional padding between the terminator of a set and the end declared by unit_length): name -> (unit offset, unit offset + die offset), order, set headers, mapping interface'),
    H('h13_2_namelut_absent', h_namelut_absent, lambda tier: [dict()], expect=('ok',), desc='absent / empty name tables'),
    H('h13_3_cu_lookup', h_cu_lookup, _lookup_instances, expect=('ok', 'outside'),
      desc='get_CU_containing(refaddr) with refaddr symbolic over the whole section (and beyond) and get_CU_at(offset) with the offset symbolic over the unit starts, '
           'for several prior cache states: the unit whose extent contains the offset / that starts there; cache sorted and duplicate free; iteration afterwards complete'),
]
