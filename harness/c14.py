"""C14 - note sections and segments yield every note exactly once; stabs."""
from symx.api import H
from spec import enc
from harness.elfkit import stream_length, elf_object, shdr, phdr
from spec import registry as REG

PROPERTY = 'C14'
ASSUMPTIONS = [
    'the note walk keeps no state but the offset, so "all extents" = one step from an arbitrary offset with arbitrary sizes (h14_1_step) plus bounded sequences (h14_1_seq)',
    'in h14_1_step the raw name/descriptor sizes are symbolic within a padding class (0, 1..4, 5..8) so that the layout is fixed while the values are not',
    'names are NUL-terminated inside their n_namesz bytes (gABI); specially decoded descriptors (h14_2_*) are well formed (descsz as the format requires)',
]
STUBS = ['SymStream (io.BytesIO)', 'SxPacker (struct.Struct)']
OUTSIDE = ['names / descriptors longer than 8 bytes in the symbolic-size step (sequences use concrete sizes up to 17)', 'more than 3 notes per extent',
           'GNU property lists with more than 2 properties', 'NT_FILE with more than 2 map entries', 'non-latin-1 decoding (names are decoded as latin-1 by the library)']

CLS = {'0': (0, 0), 'A': (1, 4), 'B': (5, 8)}


def _Elf(ctx, stream, little, elfclass, core=False, machine='EM_X86_64'):
    return elf_object(ctx, stream, elfclass, little, machine, 'ET_CORE' if core else 'ET_EXEC')


def _pad4(n):
    return (n + 3) // 4 * 4


def _type_ok(ctx, label, got, raw):
    """reported type: a registry name of the raw code, or the raw code itself"""
    for cond, obj in ctx.alternatives(got):
        if isinstance(obj, str):
            acc = REG.values(obj)
            if acc:      # names no registry defines are unchecked here (C17 lists them)
                ctx.check('%s/name-matches-code' % label, ctx.implies(cond, ctx.lor(*[raw == a for a in sorted(acc)])))
        else:
            ctx.check('%s/raw' % label, ctx.implies(cond, ctx.eq(obj, raw)))


def _first_nul(ctx, cells):
    for i, c in enumerate(cells):
        if ctx.fork(c == 0):
            return i
    return None


def _iter(ctx, elf, off, size, via):
    N = ctx.lib('elf.notes')
    if via == 'func':
        return ctx.walk(lambda: N.iter_notes(elf, off, size))
    if via == 'section':
        SEC = ctx.lib('elf.sections')
        ctx._c14n = getattr(ctx, '_c14n', 0) + 1
        # the statement fixes the padding at 4 bytes: whatever alignment the section / segment header asks for
        hdr = shdr(sh_offset=off, sh_size=size, sh_type='SHT_NOTE', sh_flags=2, sh_addralign=ctx.uint('sh_addralign#%d' % ctx._c14n, 32))
        elf.structs  # noqa
        sec = SEC.NoteSection(hdr, '.note', elf)
        return ctx.walk(lambda: sec.iter_notes())
    SEG = ctx.lib('elf.segments')
    ctx._c14n = getattr(ctx, '_c14n', 0) + 1
    hdr = phdr(p_offset=off, p_filesz=size, p_type='PT_NOTE', p_align=ctx.uint('p_align#%d' % ctx._c14n, 32))
    seg = SEG.NoteSegment(hdr, elf.stream, elf)
    return ctx.walk(lambda: seg.iter_notes())


# ------------------------------------------------------------------ H14.1 one step, symbolic sizes
def h_step(ctx):
    cfg = ctx.cfg
    little, base = cfg['little'], cfg['base']
    nlo, nhi = CLS[cfg['name']]
    dlo, dhi = CLS[cfg['desc']]
    namesz = ctx.int_range('namesz', nlo, nhi)
    descsz = ctx.int_range('descsz', dlo, dhi)
    ntype = ctx.uint('type', 32)
    name = ctx.bytes('name', nhi)
    desc = ctx.bytes('desc', dhi)
    # the name is NUL terminated within its n_namesz bytes
    if nhi:
        ctx.assume(ctx.select(name, namesz - 1) == 0)
    # not one of the specially decoded descriptor types (those are h14_2_*)
    if cfg['core']:
        ctx.assume(ctx.land(ntype != 3, ntype != 0x46494c45))
    else:
        ctx.assume(ctx.lor(ntype == 0, ntype == 2, ntype > 5))
    image = [0xEE] * base + enc.enc_int(namesz, 4, little) + enc.enc_int(descsz, 4, little) + enc.enc_int(ntype, 4, little)
    image += name + [0] * (_pad4(nhi) - nhi) + desc + [0] * (_pad4(dhi) - dhi)
    first_size = 12 + _pad4(nhi) + _pad4(dhi)
    follow = cfg['follow']
    t2 = None
    if follow == 'next':
        t2 = ctx.uint('type2', 32)
        ctx.assume(ctx.lor(t2 == 0, t2 > 0x1000)) if not cfg['core'] else ctx.assume(ctx.land(t2 != 3, t2 != 0x46494c45))
        image += enc.enc_int(0, 4, little) + enc.enc_int(0, 4, little) + enc.enc_int(t2, 4, little)
        size = first_size + 12
    elif follow == 'end':
        size = first_size
    else:               # fewer than 12 trailing bytes: not a note
        k = int(follow)
        image += [0] * k
        size = first_size + k
    image += [0xEE] * 5
    elf = _Elf(ctx, ctx.stream(image), little, cfg['elfclass'], cfg['core'])
    notes = _iter(ctx, elf, base, size, cfg.get('via', 'func'))
    ctx.outcome('ok')
    want_n = 2 if follow == 'next' else 1
    ctx.check_eq('count', len(notes), want_n)
    if len(notes) != want_n:
        return
    n = notes[0]
    ctx.check_eq('n_offset', n['n_offset'], base)
    ctx.check_eq('n_size', n['n_size'], first_size)
    ctx.check_eq('n_namesz', n['n_namesz'], namesz)
    ctx.check_eq('n_descsz', n['n_descsz'], descsz)
    _type_ok(ctx, 'n_type', n['n_type'], ntype)
    if nhi == 0:
        ctx.check_eq('n_name/none', n['n_name'], None)
    else:
        k = _first_nul(ctx, name)
        ctx.check('n_name/terminated', k is not None)
        if k is not None:
            ctx.check_eq('n_name', list(n['n_name'].encode('latin-1')), list(name[:k]))
    dz = ctx.concretize(descsz)
    ctx.check_eq('n_descdata', n['n_descdata'], ctx.mkbytes(desc[:dz]))
    ctx.check_eq('n_desc/raw', n['n_desc'], ctx.mkbytes(desc[:dz]))
    if follow == 'next':
        m = notes[1]
        ctx.check_eq('next/n_offset', m['n_offset'], base + first_size)
        ctx.check_eq('next/n_size', m['n_size'], 12)
        ctx.check_eq('next/n_name', m['n_name'], None)
        ctx.check_eq('next/n_descdata', m['n_descdata'], b'')
        _type_ok(ctx, 'next/n_type', m['n_type'], t2)


# ------------------------------------------------------------------ H14.1 sequences, concrete sizes
def h_seq(ctx):
    cfg = ctx.cfg
    little, base = cfg['little'], cfg['base']
    image = [0xEE] * base
    want = []
    for i, (nsz, dsz) in enumerate(cfg['notes']):
        t = ctx.uint('type%d' % i, 32)
        ctx.assume(ctx.lor(t == 0, t > 0x1000, t == 2)) if not cfg['core'] else ctx.assume(ctx.land(t != 3, t != 0x46494c45))
        name = [ctx.int_range('n%d[%d]' % (i, j), 1, 255) for j in range(max(nsz - 1, 0))] + ([0] if nsz else [])
        desc = ctx.bytes('d%d' % i, dsz)
        off = len(image)
        image += enc.enc_int(nsz, 4, little) + enc.enc_int(dsz, 4, little) + enc.enc_int(t, 4, little)
        image += name + [0] * (_pad4(nsz) - nsz) + desc + [0] * (_pad4(dsz) - dsz)
        want.append(dict(off=off, size=len(image) - off, name=(name[:-1] if nsz else None), desc=desc, type=t))
    size = len(image) - base + cfg.get('trail', 0)
    image += [0] * cfg.get('trail', 0) + [0xEE] * 3
    elf = _Elf(ctx, ctx.stream(image), little, cfg['elfclass'], cfg['core'])
    notes = _iter(ctx, elf, base, size, cfg['via'])
    ctx.outcome('ok')
    ctx.check_eq('seq/count/%s' % cfg['label'], len(notes), len(want))
    if len(notes) != len(want):
        return
    for n, w in zip(notes, want):
        ctx.check_eq('seq/n_offset', n['n_offset'], w['off'])
        ctx.check_eq('seq/n_size', n['n_size'], w['size'])
        if w['name'] is None:
            ctx.check_eq('seq/n_name', n['n_name'], None)
        else:
            ctx.check_eq('seq/n_name', list(n['n_name'].encode('latin-1')), list(w['name']))
        ctx.check_eq('seq/n_descdata', n['n_descdata'], ctx.mkbytes(w['desc']))
        _type_ok(ctx, 'seq/n_type', n['n_type'], w['type'])


# ------------------------------------------------------------------ H14.2 descriptors
GNU = [0x47, 0x4e, 0x55, 0]


def _note(little, name, ntype, desc):
    out = enc.enc_int(len(name), 4, little) + enc.enc_int(len(desc), 4, little) + enc.enc_int(ntype, 4, little)
    return out + name + [0] * (_pad4(len(name)) - len(name)) + desc + [0] * (_pad4(len(desc)) - len(desc))


def h_desc(ctx):
    cfg = ctx.cfg
    little, cls, kind = cfg['little'], cfg['elfclass'], cfg['kind']
    core = kind in ('prpsinfo', 'ntfile')
    wsz = cls // 8
    want = None
    machine = cfg.get('machine', 'EM_X86_64')
    if kind == 'abi':
        vals = [ctx.uint('abi%d' % i, 32) for i in range(4)]
        desc = sum([enc.enc_int(v, 4, little) for v in vals], [])
        img = _note(little, GNU, 1, desc)
    elif kind == 'buildid':
        desc = ctx.bytes('id', cfg['len']) if cfg.get('sym') else [(37 * i + 0x9c) & 0xff for i in range(cfg['len'])]
        img = _note(little, GNU, 3, desc)
    elif kind == 'gold':
        desc = [ctx.int_range('g[%d]' % i, 1, 255) for i in range(cfg['len'])]
        img = _note(little, GNU, 4, desc)
    elif kind == 'prop':
        desc = []
        want = []
        align = 4 if cls == 32 else 8
        for i, (ptype, dsz) in enumerate(cfg['props']):
            pt = ptype if ptype not in (None, 'proc') else ctx.uint('pt%d' % i, 32)
            if ptype is None:
                # a type the library has no special case for
                ctx.assume(ctx.land(pt != 1, pt != 2, pt < 0xc0000000))
            elif ptype == 'proc':
                # a processor-specific type that no registry defines (and that therefore has no known payload format): raw bytes,
                # whatever their number
                known = sorted({v for n in REG.registry() if n.startswith('GNU_PROPERTY_') for v in REG.values(n) if v >= 0xc0000000})
                ctx.assume(ctx.land(pt >= 0xc0000000, *[pt != v for v in known]))
            data = ctx.bytes('pd%d' % i, dsz)
            desc += enc.enc_int(pt, 4, little) + enc.enc_int(dsz, 4, little) + data
            desc += [0] * (enc.roundup(len(desc), align) - len(desc))
            want.append((pt, dsz, data))
        img = _note(little, GNU, 5, desc)
    elif kind == 'prpsinfo':
        ug = 2 if (cls == 32 and machine in ('EM_386', 'EM_ARM')) else 4
        fields = [('pr_state', 1), ('pr_sname', 1), ('pr_zomb', 1), ('pr_nice', 1)]
        if cls == 64:
            fields.append(('pad', 4))
        fields += [('pr_flag', wsz), ('pr_uid', ug), ('pr_gid', ug), ('pr_pid', 4), ('pr_ppid', 4), ('pr_pgrp', 4), ('pr_sid', 4)]
        desc = []
        want = {}
        for nm, sz in fields:
            if nm == 'pad':
                desc += [0] * sz
                continue
            v = ctx.uint(nm, 8 * sz)
            want[nm] = v
            desc += enc.enc_int(v, sz, little)
        fname = ctx.bytes('fname', 16)
        psargs = ctx.bytes('psargs', 8) + [0x20] * 72
        desc += fname + psargs
        want['pr_fname'] = fname
        want['pr_psargs'] = psargs
        img = _note(little, [0x43, 0x4f, 0x52, 0x45, 0], 3, desc)
    elif kind == 'ntfile':
        k = cfg['entries']
        page = ctx.uint('page', 8 * wsz)
        ents = [[ctx.uint('e%d.%d' % (i, j), 8 * wsz) for j in range(3)] for i in range(k)]
        names = [[ctx.int_range('f%d[%d]' % (i, j), 1, 255) for j in range(cfg['fnlen'])] for i in range(k)]
        desc = enc.enc_int(k, wsz, little) + enc.enc_int(page, wsz, little)
        for e in ents:
            for v in e:
                desc += enc.enc_int(v, wsz, little)
        for nmb in names:
            desc += nmb + [0]
        want = (page, ents, names)
        img = _note(little, [0x43, 0x4f, 0x52, 0x45, 0], 0x46494c45, desc)
    base = cfg.get('base', 0)
    image = [0xEE] * base + img + [0xEE] * 3
    elf = _Elf(ctx, ctx.stream(image), little, cls, core, machine)
    notes = _iter(ctx, elf, base, len(img), 'func')
    ctx.outcome('ok')
    ctx.check_eq('%s/count' % kind, len(notes), 1)
    if len(notes) != 1:
        return
    n = notes[0]
    d = n['n_desc']
    ctx.check_eq('%s/n_descdata' % kind, n['n_descdata'], ctx.mkbytes(desc))
    ctx.check_eq('%s/n_size' % kind, n['n_size'], len(img))
    if kind == 'abi':
        _type_ok(ctx, 'abi/os', d['abi_os'], vals[0])
        ctx.check_eq('abi/version', [d['abi_major'], d['abi_minor'], d['abi_tiny']], vals[1:])
    elif kind == 'buildid':
        # hex text of the descriptor: two lowercase hex digits per byte, in order
        hexd = '0123456789abcdef'
        ctx.check_eq('buildid/len', len(d), 2 * len(desc))
        dd = str(d)
        ctx.check_eq('buildid/hex', [hexd.index(ch) for ch in dd], sum([[ctx.concretize(b) >> 4, ctx.concretize(b) & 15] for b in desc], []))
    elif kind == 'gold':
        ctx.check_eq('gold/text', list(d.encode('latin-1')), desc)
    elif kind == 'prop':
        ctx.check_eq('prop/count', len(d), len(want))
        if len(d) == len(want):
            for p, (pt, dsz, data) in zip(d, want):
                _type_ok(ctx, 'prop/pr_type', p['pr_type'], pt)
                ctx.check_eq('prop/pr_datasz', p['pr_datasz'], dsz)
                pd = p['pr_data']
                if isinstance(pd, (bytes, bytearray)) or hasattr(pd, 'items') and not isinstance(pd, dict):
                    ctx.check_eq('prop/pr_data/raw', pd, ctx.mkbytes(data))
                else:
                    ctx.check_eq('prop/pr_data/word', pd, enc.dec_uint(data, little))
    elif kind == 'prpsinfo':
        for nm, v in want.items():
            if nm in ('pr_fname', 'pr_psargs'):
                ctx.check_eq('prpsinfo/' + nm, d[nm], ctx.mkbytes(v))
            elif nm == 'pr_sname':
                ctx.check_eq('prpsinfo/' + nm, d[nm], ctx.mkbytes([v]))
            else:
                ctx.check_eq('prpsinfo/' + nm, d[nm], v)
    elif kind == 'ntfile':
        page, ents, names = want
        ctx.check_eq('ntfile/num', d['num_map_entries'], len(ents))
        ctx.check_eq('ntfile/page_size', d['page_size'], page)
        ctx.check_eq('ntfile/entries', [[e['vm_start'], e['vm_end'], e['page_offset']] for e in d['Elf_Nt_File_Entry']], ents)
        ctx.check_eq('ntfile/filenames', [list(f) for f in d['filename']], names)


# ------------------------------------------------------------------ H14.3 stabs
def h_stabs(ctx):
    cfg = ctx.cfg
    little, k, base = cfg['little'], cfg['count'], cfg['base']
    SEC = ctx.lib('elf.sections')
    recs = []
    image = [0xEE] * base
    for i in range(k):
        strx, typ, other, desc, value = ctx.uint('strx%d' % i, 32), ctx.uint('type%d' % i, 8), ctx.uint('other%d' % i, 8), ctx.uint('desc%d' % i, 16), ctx.uint('value%d' % i, 32)
        recs.append((strx, typ, other, desc, value, len(image)))
        image += enc.enc_int(strx, 4, little) + [typ, other] + enc.enc_int(desc, 2, little) + enc.enc_int(value, 4, little)
    image += [0xEE] * 7
    elf = _Elf(ctx, ctx.stream(image), little, cfg['elfclass'])
    hdr = shdr(sh_offset=base, sh_size=12 * k, sh_type='SHT_PROGBITS', sh_flags=0, sh_addralign=4, sh_entsize=12)
    sec = SEC.StabSection(hdr, '.stab', elf)
    got = ctx.walk(lambda: sec.iter_stabs())
    ctx.outcome('ok')
    ctx.check_eq('stabs/count', len(got), k)
    if len(got) == k:
        ctx.check_eq('stabs/records', [(s['n_strx'], s['n_type'], s['n_other'], s['n_desc'], s['n_value'], s['n_offset']) for s in got], recs)


def _step_instances(tier):
    out = []
    for little, cls, core in ((True, 64, False), (False, 32, False), (True, 32, True)) if tier == 'quick' else [(l, c, k) for l in (True, False) for c in (32, 64) for k in (False, True)]:
        for nc in '0AB':
            for dc in '0AB':
                for follow in ('end', 'next', '4', '11'):
                    # the extent may start at any file offset: padding is relative to the extent start, not to the file (quick: the
                    # residues mod 4 rotate over the instances; thorough: every residue for every instance)
                    for base in ((len(out) % 4,) if tier == 'quick' else (0, 1, 2, 3, 8)):
                        out.append(dict(little=little, elfclass=cls, core=core, name=nc, desc=dc, follow=follow, base=base, via='func'))
    return out


def _seq_instances(tier):
    seqs = {
        'empty': [], 'header-only': [(0, 0)], 'two-header-only': [(0, 0), (0, 0)], 'final-header-only': [(4, 4), (0, 0)],
        'residues-1': [(1, 1), (2, 3)], 'residues-2': [(3, 2), (5, 0), (0, 7)], 'gnu-like': [(4, 16), (4, 20)], 'big': [(17, 9), (8, 13), (0, 0)],
        'name-only': [(6, 0)], 'desc-only': [(0, 6), (0, 1)],
    }
    out = []
    for little, cls in ((True, 64), (False, 32)):
        for label, notes in seqs.items():
            for via in ('func', 'section', 'segment'):
                for trail in ((0,) if via != 'func' else (0, 4, 11)):
                    if tier == 'quick' and (little, cls) == (False, 32) and via != 'func':
                        continue
                    out.append(dict(little=little, elfclass=cls, core=False, notes=notes, via=via, label=label, trail=trail, base=4 if via != 'segment' else 0))
                    if label in ('residues-2', 'gnu-like') and trail == 0:
                        for base in (1, 2, 3):      # extents at file offsets that are not multiples of 4
                            out.append(dict(little=little, elfclass=cls, core=False, notes=notes, via=via, label=label + '@%d' % base, trail=0, base=base))
    return out


def _desc_instances(tier):
    out = []
    for little, cls in ((True, 64), (False, 32), (True, 32), (False, 64)):
        out.append(dict(little=little, elfclass=cls, kind='abi'))
        out.append(dict(little=little, elfclass=cls, kind='buildid', len=1, sym=True))
        for ln in (0, 3, 20):
            out.append(dict(little=little, elfclass=cls, kind='buildid', len=ln))
        out.append(dict(little=little, elfclass=cls, kind='gold', len=5))
        for props in ([], [(None, 0)], [(None, 3)], [(None, 4), (None, 8)], [(1, 4 if cls == 32 else 8)], [(0xc0000002, 4)], [(0xc0000000, 4), (None, 1)],
                      [(0xc0008002, 4), (0xc0010001, 4)], [(2, 0)], [('proc', 16)], [('proc', 4), (0xc0000000, 4)], [('proc', 3)]):
            out.append(dict(little=little, elfclass=cls, kind='prop', props=props))
        for m in ('EM_X86_64', 'EM_386'):
            out.append(dict(little=little, elfclass=cls, kind='prpsinfo', machine=m))
        for k, fl in ((0, 0), (1, 2), (2, 1)):
            out.append(dict(little=little, elfclass=cls, kind='ntfile', entries=k, fnlen=fl))
    return out


TIER_PARAMS = {'quick': {'conc_cap': 300}, 'thorough': {'conc_cap': 600}}

from harness import c17 as C17

HARNESSES = [
    H('h14_4_note_type_names_of_copies', C17.h_decode_elf, lambda tier: [c for c in C17._elf_instances(tier) if c.get('copied') and c['e_type'] == 'ET_CORE'],
      expect=('ok', 'no-such-adapter'),
      desc='note type names (core files: NT_PRSTATUS, NT_PRPSINFO, NT_FILE ...) of a struct factory that went through the copy / pickle protocol, as objects handed to a '
           'worker process do (harness shared with C17)'),
    H('h14_1_step', h_step, _step_instances, expect=('ok',),
      desc='one note at an arbitrary offset: n_namesz / n_descsz symbolic within a padding class, type, name and descriptor bytes symbolic; '
           'followed by the extent end, a header-only note, or fewer than 12 trailing bytes. Oracle: gABI note format with 4-byte padding',
      bounds={'all': 'name and descriptor sizes 0..8'}),
    H('h14_1_seq', h_seq, _seq_instances, expect=('ok',),
      desc='extents of 0-3 notes with concrete sizes covering every residue mod 4, incl. header-only final note; via iter_notes, NoteSection and NoteSegment',
      bounds={'all': 'up to 3 notes, sizes up to 17'}),
    H('h14_2_desc', h_desc, _desc_instances, expect=('ok',),
      desc='descriptors: GNU ABI tag, build id, gold version, property lists (class-dependent padding), NT_PRPSINFO per class / ugid width, NT_FILE; field values symbolic'),
    H('h14_3_stabs', h_stabs, lambda tier: [dict(little=l, elfclass=32, count=k, base=b) for l in (True, False) for k in (0, 1, 3) for b in (0, 5)], expect=('ok',),
      desc='StabSection.iter_stabs: 0-3 twelve-byte records, all fields symbolic'),
]
