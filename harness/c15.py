"""C15 - symbol-version sections resolve each symbol to its encoded version."""
from symx.api import H
from spec import enc
from harness.elfkit import stream_length, elf_object
from spec import elf_layout as L
from spec import registry as REG
from harness import c01 as C1

PROPERTY = 'C15'
ASSUMPTIONS = [
    'version sections are generated from layouts (contiguous, padded, auxiliaries after all entries, reversed order); the next/aux displacements follow from the layout, every other field value is symbolic',
    'names are ASCII strings of a small string table; one name offset per instance is symbolic',
]
STUBS = ['SymStream (io.BytesIO)', 'SxPacker (struct.Struct)']
OUTSIDE = ['more than 3 entries x 2 auxiliaries', 'cyclic next chains (ill-formed)', 'hidden-bit masking of versym indices (the caller passes the index it wants resolved)']

ENVS = [(32, True), (32, False), (64, True), (64, False)]
STRTAB = [0] + [ord(c) for c in 'lib.so\0V1\0V2\0']       # 1:'lib.so' 8:'V1' 11:'V2'
STR_AT = {0: '', 1: 'lib.so', 8: 'V1', 11: 'V2', 4: '.so', 9: '1'}
# a second table with other strings at the same offsets (instances alternate between the two: a name remembered from one file
# must not be served for another)
STRTAB_B = [0] + [ord(c) for c in 'abc_de\0W7\0X9\0']
STR_AT_B = {0: '', 1: 'abc_de', 8: 'W7', 11: 'X9', 4: '_de', 9: '7'}
_CUR_STR = [STR_AT]


def _Elf(ctx, stream, cls, little, machine='EM_X86_64'):
    return elf_object(ctx, stream, cls, little, machine, 'ET_DYN')


def _shdr(**kw):
    h = dict(sh_name=0, sh_type='SHT_GNU_verdef', sh_flags=0, sh_addr=0, sh_offset=0, sh_size=0, sh_link=0, sh_info=0, sh_addralign=4, sh_entsize=0)
    h.update(kw)
    return h


# ------------------------------------------------------------------ H15.1 record layouts
def h_records(ctx):
    cfg = ctx.cfg
    cls, little, which = cfg['elfclass'], cfg['little'], cfg['which']
    U = ctx.lib('common.utils')
    elf = _Elf(ctx, None, cls, little)
    st = elf.structs
    con = {'VERDEF': st.Elf_Verdef, 'VERDAUX': st.Elf_Verdaux, 'VERNEED': st.Elf_Verneed, 'VERNAUX': st.Elf_Vernaux}[which]
    n = L.sizeof(which, cls)
    cells = ctx.bytes('r', n)
    s = ctx.stream(cells + [0xEE])
    got = U.struct_parse(con, s)
    want = L.decode(which, cls, little, cells)
    ctx.outcome('ok')
    ctx.check_eq('record/%s/consumed' % which, s.tell(), n)
    for f, v in want.items():
        ctx.check_eq('record/%s/%s' % (which, f), got[f], v)
    ctx.check_eq('record/%s/sizeof' % which, con.sizeof(), n)


# ------------------------------------------------------------------ H15.2 / H15.3 chains
def _layout(kind, nent, naux, ent_size, aux_size):
    """positions (relative to the section start) of entries and their auxiliaries"""
    pos = {}
    p = 0
    if kind == 'contiguous':
        for i in range(nent):
            pos[('e', i)] = p
            p += ent_size
            for j in range(naux[i]):
                pos[('a', i, j)] = p
                p += aux_size
    elif kind == 'padded':
        for i in range(nent):
            pos[('e', i)] = p
            p += ent_size + 8
            for j in range(naux[i]):
                pos[('a', i, j)] = p
                p += aux_size + 4
            p += 4
    elif kind == 'aux-last':
        for i in range(nent):
            pos[('e', i)] = p
            p += ent_size
        for i in range(nent):
            for j in range(naux[i]):
                pos[('a', i, j)] = p
                p += aux_size
    elif kind == 'crossed':
        # displacements are unsigned, so every link points forward; here the auxiliaries of the LAST entry come first
        for i in range(nent):
            pos[('e', i)] = p
            p += ent_size
        for i in reversed(range(nent)):
            for j in range(naux[i]):
                pos[('a', i, j)] = p
                p += aux_size + 4
    return pos, p


def _build(ctx, cfg):
    cls, little, kind, need = cfg['elfclass'], cfg['little'], cfg['layout'], cfg['need']
    naux = cfg['naux']
    nent = len(naux)
    EN, AN = ('VERNEED', 'VERNAUX') if need else ('VERDEF', 'VERDAUX')
    esz, asz = L.sizeof(EN, cls), L.sizeof(AN, cls)
    pos, total = _layout(kind, nent, naux, esz, asz)
    base = cfg.get('base', 0)
    sec = [0x77] * total
    ents = []
    name_offs = [8, 11, 1, 4, 9]
    symname = cfg.get('symname', (0, 0))
    for i in range(nent):
        nxt = (pos[('e', i + 1)] - pos[('e', i)]) if i + 1 < nent else 0
        auxd = pos[('a', i, 0)] - pos[('e', i)]
        if need:
            f = dict(vn_version=ctx.uint('e%d.version' % i, 16), vn_cnt=naux[i], vn_file=[1, 4][i % 2], vn_aux=auxd & 0xffffffff, vn_next=nxt & 0xffffffff)
        else:
            f = dict(vd_version=ctx.uint('e%d.version' % i, 16), vd_flags=ctx.uint('e%d.flags' % i, 16), vd_ndx=ctx.uint('e%d.ndx' % i, 16), vd_cnt=naux[i],
                     vd_hash=ctx.uint('e%d.hash' % i, 32), vd_aux=auxd & 0xffffffff, vd_next=nxt & 0xffffffff)
        b = L.encode(EN, cls, little, f)
        sec[pos[('e', i)]:pos[('e', i)] + esz] = b
        auxs = []
        for j in range(naux[i]):
            anx = (pos[('a', i, j + 1)] - pos[('a', i, j)]) if j + 1 < naux[i] else 0
            if (i, j) == tuple(symname):
                no = ctx.select([0, 1, 4, 8, 9, 11], ctx.int_range('nameoff', 0, 5))
            else:
                no = name_offs[(2 * i + j) % len(name_offs)]
            if need:
                a = dict(vna_hash=ctx.uint('a%d.%d.hash' % (i, j), 32), vna_flags=ctx.uint('a%d.%d.flags' % (i, j), 16), vna_other=ctx.uint('a%d.%d.other' % (i, j), 16),
                         vna_name=no, vna_next=anx & 0xffffffff)
            else:
                a = dict(vda_name=no, vda_next=anx & 0xffffffff)
            sec[pos[('a', i, j)]:pos[('a', i, j)] + asz] = L.encode(AN, cls, little, a)
            auxs.append(a)
        ents.append((f, auxs))
    image = [0xEE] * base + sec + [0xEE] * 2
    stroff = len(image)
    tab = STRTAB_B if cfg.get('strtab') else STRTAB
    if not ctx.mute:
        _CUR_STR[0] = STR_AT_B if cfg.get('strtab') else STR_AT
    image += tab
    elf = _Elf(ctx, ctx.stream(image), cls, little)
    SEC = ctx.lib('elf.sections')
    GV = ctx.lib('elf.gnuversions')
    strtab = SEC.StringTableSection(_shdr(sh_type='SHT_STRTAB', sh_offset=stroff, sh_size=len(STRTAB)), '.dynstr', elf)
    hdr = _shdr(sh_type='SHT_GNU_verneed' if need else 'SHT_GNU_verdef', sh_offset=base, sh_size=total, sh_info=nent)
    section = (GV.GNUVerNeedSection if need else GV.GNUVerDefSection)(hdr, '.gnu.version_r' if need else '.gnu.version_d', elf, strtab)
    return section, ents


def _name(ctx, off):
    return _CUR_STR[0][ctx.concretize(off)]


def h_chain(ctx):
    cfg = ctx.cfg
    need = cfg['need']
    section, ents = _build(ctx, cfg)
    got = [(v, list(it)) for v, it in section.iter_versions()]
    ctx.outcome('ok')
    ctx.check_eq('chain/num_versions', section.num_versions(), len(ents))
    ctx.check_eq('chain/%s/count' % cfg['layout'], len(got), len(ents))
    if len(got) != len(ents):
        return
    for (v, auxs), (f, wa) in zip(got, ents):
        for k, val in f.items():
            ctx.check_eq('chain/entry/%s' % k, v[k], val)
        if need:
            ctx.check_eq('chain/entry/file-name', v.name, _name(ctx, f['vn_file']))
        ctx.check_eq('chain/%s/aux-count' % cfg['layout'], len(auxs), len(wa))
        for a, w in zip(auxs, wa):
            for k, val in w.items():
                ctx.check_eq('chain/aux/%s' % k, a[k], val)
            ctx.check_eq('chain/aux/name', a.name, _name(ctx, w['vna_name' if need else 'vda_name']))
    # the auxiliary iterator handed out with an entry stays that entry's, in whatever order the two levels are consumed: all
    # entries collected first, then their auxiliaries walked last entry first
    pairs = ctx.walk(lambda: section.iter_versions())
    late = [(v, ctx.drain(it)) for v, it in reversed(pairs)][::-1]
    key = 'vna_name' if need else 'vda_name'
    ctx.check_eq('chain/%s/auxiliaries-walked-later' % cfg['layout'], [[a[key] for a in auxs] for _, auxs in late], [[w[key] for w in wa] for _, wa in ents])
    if need:
        ctx.check_eq('chain/auxiliaries-walked-later/other', [[a['vna_other'] for a in auxs] for _, auxs in late], [[w['vna_other'] for w in wa] for _, wa in ents])


def h_index(ctx):
    cfg = ctx.cfg
    need = cfg['need']
    section, ents = _build(ctx, cfg)
    idx = ctx.uint('index', 16)
    r = section.get_version(idx)
    ctx.outcome('ok')
    if need:
        carriers = [(i, j) for i, (f, auxs) in enumerate(ents) for j, a in enumerate(auxs)]
        first = None
        for (i, j) in carriers:
            if ctx.fork(ents[i][1][j]['vna_other'] == idx):
                first = (i, j)
                break
        if first is None:
            ctx.outcome('miss')
            ctx.check('index/need/none-when-no-entry-carries-it', r is None)
        else:
            ctx.check('index/need/found', r is not None)
            if r is not None:
                verneed, vernaux = r
                ctx.check_eq('index/need/vernaux', [vernaux['vna_other'], vernaux['vna_hash']], [idx, ents[first[0]][1][first[1]]['vna_hash']])
                ctx.check_eq('index/need/verneed', verneed['vn_version'], ents[first[0]][0]['vn_version'])
        # has_indexes: some auxiliary carries a non-zero index
        anyidx = ctx.lor(*[ents[i][1][j]['vna_other'] != 0 for (i, j) in carriers]) if carriers else False
        ctx.check('index/need/has_indexes', ctx.iff(section.has_indexes(), anyidx))
        ctx.check('index/need/has_indexes-memo', ctx.iff(section.has_indexes(), anyidx))
    else:
        first = None
        for i, (f, auxs) in enumerate(ents):
            if ctx.fork(f['vd_ndx'] == idx):
                first = i
                break
        if first is None:
            ctx.outcome('miss')
            ctx.check('index/def/none-when-no-entry-carries-it', r is None)
        else:
            ctx.check('index/def/found', r is not None)
            if r is not None:
                verdef, it = r
                ctx.check_eq('index/def/verdef', [verdef['vd_ndx'], verdef['vd_hash']], [idx, ents[first][0]['vd_hash']])
                ctx.check_eq('index/def/aux-names', [a.name for a in it], [_name(ctx, a['vda_name']) for a in ents[first][1]])


# ------------------------------------------------------------------ H15.4 versym
class _SymDouble:
    def __init__(self, ctx, names):
        self.ctx = ctx
        self.names = names
        self.Symbol = ctx.lib('elf.sections').Symbol

    def get_symbol(self, n):
        return self.Symbol({}, self.names[self.ctx.concretize(n)])


def h_versym(ctx):
    cfg = ctx.cfg
    cls, little, k = cfg['elfclass'], cfg['little'], cfg['k']
    GV = ctx.lib('elf.gnuversions')
    vals = [ctx.uint('v%d' % i, 16) for i in range(k)]
    base = cfg.get('base', 0)
    image = [0xEE] * base
    for v in vals:
        image += enc.enc_int(v, 2, little)
    image += [0xEE] * 2
    # the linked symbol table is a REAL SymbolTableSection over the same stream (its entries may be larger than Elf_Sym: the
    # stride of a table is its sh_entsize), with its string table
    names = ['', 'a', 'bb', 'c'][:k]
    SEC = ctx.lib('elf.sections')
    stroff = len(image)
    image += [0, 0x61, 0, 0x62, 0x62, 0, 0x63, 0]
    image += [0xEE] * (-len(image) % 8)
    symoff = len(image)
    ent = L.sizeof('SYM', cls) + cfg.get('symslack', 0)
    for i in range(k):
        image += L.encode('SYM', cls, little, dict(st_name=[0, 1, 3, 6][i], st_value=0x100 + i, st_info=0x12, st_shndx=1 if i else 0)) + [0xEE] * cfg.get('symslack', 0)
    elf = _Elf(ctx, ctx.stream(image), cls, little)
    strsec = SEC.StringTableSection(_shdr(sh_type='SHT_STRTAB', sh_offset=stroff, sh_size=8), '.dynstr', elf)
    symsec = SEC.SymbolTableSection(_shdr(sh_type='SHT_DYNSYM', sh_offset=symoff, sh_size=k * ent, sh_entsize=ent, sh_link=1, sh_info=1), '.dynsym', elf, strsec)
    sec = GV.GNUVerSymSection(_shdr(sh_type='SHT_GNU_versym', sh_offset=base, sh_size=2 * k, sh_entsize=2), '.gnu.version', elf, symsec)
    ctx.outcome('ok')
    ctx.check_eq('versym/num_symbols', sec.num_symbols(), k)
    got = ctx.walk(lambda: sec.iter_symbols())
    ctx.check_eq('versym/count', len(got), k)
    for i, s in enumerate(got):
        ctx.check_eq('versym/name', s.name, names[i])
        conds = []
        for cond, obj in ctx.alternatives(s['ndx']):
            if isinstance(obj, str):
                acc = REG.values(obj)
                if acc:
                    conds.append(ctx.implies(cond, ctx.lor(*[vals[i] == a for a in sorted(acc)])))
            else:
                conds.append(ctx.implies(cond, ctx.eq(obj, vals[i])))
        ctx.check('versym/ndx/name-or-raw', ctx.land(*conds))
    if k:
        n = ctx.int_range('n', 0, k - 1)
        s = sec.get_symbol(n)
        ctx.check_eq('versym/get_symbol(n)/name', s.name, names[ctx.concretize(n)])


def _chain_instances(tier):
    out = []
    envs = [(64, True), (32, False)] if tier == 'quick' else ENVS
    for cls, little in envs:
        for need in (False, True):
            for layout in ('contiguous', 'padded', 'aux-last', 'crossed'):
                for naux in ([1], [2, 1], [1, 2]) + (([2, 2, 1],) if tier == 'thorough' else ()):
                    out.append(dict(elfclass=cls, little=little, need=need, layout=layout, naux=naux, base=4 if layout == 'padded' else 0, symname=(len(naux) - 1, 0),
                                    strtab=len(out) % 2))
            out.append(dict(elfclass=cls, little=little, need=need, layout='contiguous', naux=[]))
    return out


def _index_instances(tier):
    out = []
    for cls, little in [(64, True), (32, False)]:
        for need in (False, True):
            for layout in ('contiguous', 'aux-last', 'crossed'):
                for naux in ([1], [2, 1]) + (([1, 1, 2],) if tier == 'thorough' else ()):
                    out.append(dict(elfclass=cls, little=little, need=need, layout=layout, naux=naux, symname=(9, 9)))
            out.append(dict(elfclass=cls, little=little, need=need, layout='contiguous', naux=[], symname=(9, 9)))
    return out


TIER_PARAMS = {'quick': {'conc_cap': 300}, 'thorough': {'conc_cap': 600}}

# ------------------------------------------------------------------ H15.6 every version section resolves names through ITS OWN linked string table
def h_own_strtab(ctx):
    """a file whose version definition and version requirement sections link to two DIFFERENT string tables (sh_link of each section designates
    its own table), fetched in either order, repeatedly: file and version names come from the table each section links to"""
    from harness.elfkit import Image, open_elf
    cfg = ctx.cfg
    cls, little, order = cfg['elfclass'], cfg['little'], cfg['order']
    img = Image(cls, little, machine=62)
    img.section('', sh_type=0)
    ta = [0] + [ord(c) for c in 'libA.so'] + [0] + [ord(c) for c in 'VER_A'] + [0]        # 1:'libA.so' 9:'VER_A'
    tb = [0] + [ord(c) for c in 'libBB.s'] + [0] + [ord(c) for c in 'VER_B'] + [0]        # same offsets, other strings
    oa, ob = img.blob(ta), img.blob(tb)
    hd = ctx.uint('vd_hash', 32)
    hn = ctx.uint('vna_hash', 32)
    vd = L.encode('VERDEF', cls, little, dict(vd_version=1, vd_ndx=2, vd_cnt=1, vd_hash=hd, vd_aux=20, vd_next=0)) + L.encode('VERDAUX', cls, little, dict(vda_name=9))
    vn = L.encode('VERNEED', cls, little, dict(vn_version=1, vn_cnt=1, vn_file=1, vn_aux=16, vn_next=0)) + L.encode('VERNAUX', cls, little, dict(vna_hash=hn, vna_other=3, vna_name=9))
    od, on = img.blob(vd, align=4), img.blob(vn, align=4)
    img.section('.strA', sh_type=3, sh_offset=oa, sh_size=len(ta))                                   # 1
    img.section('.strB', sh_type=3, sh_offset=ob, sh_size=len(tb))                                   # 2
    img.section('.gnu.version_d', sh_type=0x6ffffffd, sh_offset=od, sh_size=len(vd), sh_link=1, sh_info=1)      # 3
    img.section('.gnu.version_r', sh_type=0x6ffffffe, sh_offset=on, sh_size=len(vn), sh_link=2, sh_info=1)      # 4
    img.add_shstrtab()
    elf = open_elf(ctx, img.build())

    def defs():
        sec = elf.get_section(3) if cfg.get('by') != 'name' else elf.get_section_by_name('.gnu.version_d')
        return [(v['vd_hash'], [a.name for a in it]) for v, it in sec.iter_versions()], sec.get_version(2)

    def needs():
        sec = elf.get_section(4) if cfg.get('by') != 'name' else elf.get_section_by_name('.gnu.version_r')
        return [(v.name, [(a.name, a['vna_hash']) for a in it]) for v, it in sec.iter_versions()], sec.get_version(3)
    if order == 'defs-first':
        d, n = defs(), needs()
    elif order == 'needs-first':
        n, d = needs(), defs()
    else:
        list(elf.iter_sections())
        n, d = needs(), defs()
    ctx.outcome('ok')
    ctx.check_eq('own-strtab/%s/definitions' % order, d[0], [(hd, ['VER_A'])])
    ctx.check_eq('own-strtab/%s/requirements' % order, n[0], [('libBB.s', [('VER_B', hn)])])
    ctx.check('own-strtab/%s/get_version/def' % order, d[1] is not None and [a.name for a in d[1][1]] == ['VER_A'])
    ctx.check('own-strtab/%s/get_version/need' % order, n[1] is not None and (n[1][0].name, n[1][1].name) == ('libBB.s', 'VER_B'))
    ctx.check_eq('own-strtab/%s/again' % order, [defs()[0], needs()[0]], [d[0], n[0]])


HARNESSES = [
    H('h15_6_own_string_table', h_own_strtab, lambda tier: [dict(elfclass=c, little=l, order=o, by=b) for c, l in ((64, True), (32, False)) for o in ('defs-first', 'needs-first', 'after-enumeration') for b in ('index', 'name')], expect=('ok',),
      desc='version definition and version requirement sections of one file linked to two DIFFERENT string tables, fetched by index or by name in either order, after a full enumeration, repeatedly: names come from the table each section links to'),
    H('h15_0_version_section_kinds', C1.h_kinds, lambda tier: [c for c in C1._kinds_instances(tier) if c['sh_type'] in (0x6ffffffd, 0x6ffffffe, 0x6fffffff)], expect=('ok',),
      desc='sections of the three version section types are handed out as GNUVerDefSection / GNUVerNeedSection / GNUVerSymSection in every processor and OS ABI context, Solaris objects included (harness shared with C01)'),
    H('h15_5_link_0xffff', C1.h_many_sections, lambda tier: [dict(elfclass=64, little=False, n=0x10001, links_first=True)], expect=('ok',), decoy=-1,
      desc='a file with more than 0xff00 sections whose version sections (and symbol table, dynamic section) link to the string table at index 0xffff: '
           'names come from THAT section, not from the section name table the file header escapes to with the same value (ground instance; harness shared with C01)'),
    H('h15_1_records', h_records, lambda tier: [dict(elfclass=c, little=l, which=w) for c, l in ENVS for w in ('VERDEF', 'VERDAUX', 'VERNEED', 'VERNAUX')], expect=('ok',),
      desc='Elf_Verdef / Verdaux / Verneed / Vernaux of fully symbolic bytes: layout per the Sun/GNU symbol versioning description'),
    H('h15_2_chain', h_chain, _chain_instances, decoy='all', expect=('ok',),
      desc='iter_versions over generated sections: 0-3 entries x 1-2 auxiliaries in contiguous, padded, auxiliaries-last and crossed layouts (next/aux displacements '
           'must be followed, not assumed contiguous); all other fields symbolic; file and version names through the linked string table'),
    H('h15_3_index', h_index, _index_instances, decoy='all', expect=('ok', 'miss'),
      desc='get_version(index) with a symbolic 16-bit index over symbolic vd_ndx / vna_other values: the first entry carrying the index, None if none; has_indexes'),
    H('h15_4_versym', h_versym, lambda tier: [dict(elfclass=c, little=l, k=k, base=b, symslack=sl) for c, l in ENVS for (k, b, sl) in ((0, 0, 0), (3, 0, 0), (4, 6, 0), (3, 2, 8))], expect=('ok',),
      desc='GNUVerSymSection: one symbolic half-word per symbol paired with the name of that symbol in the linked (real) symbol table, whose entries may be padded; reserved indices named'),
]
