"""C16 - primitive decoders invert the standard encodings and consume exact lengths."""
from symx.api import H
from harness import c07 as C7
from harness import c06 as C6
from spec import enc

PROPERTY = 'C16'
ASSUMPTIONS = [
    'struct.Struct is replaced by a stub implementing the documented semantics of explicit-byte-order integer formats (validated against the real struct module at setup)',
    'io.BytesIO is modelled by SymStream (read/seek/tell contract incl. short reads)',
]
STUBS = ['SxPacker (struct.Struct)', 'SymStream (io.BytesIO)']
OUTSIDE = [
    'LEB128 encodings longer than the stated byte bound (quick 16, thorough 24 bytes)',
    'C strings longer than 200 bytes',
    'exception message texts',
]


def _parse(ctx, con, stream, pos=None):
    U = ctx.lib('common.utils')
    return U.struct_parse(con, stream, pos)


# ---------------------------------------------------------------- H16.1 LEB128
def h_leb(ctx):
    n = ctx.cfg['n']
    signed = ctx.cfg['signed']
    CU = ctx.lib('common.construct_utils')
    EXC = ctx.lib('common.exceptions')
    bs = ctx.bytes('b', n)
    st = ctx.stream(bs)
    con = (CU.SLEB128 if signed else CU.ULEB128)('')
    try:
        v = _parse(ctx, con, st)
    except EXC.ELFParseError:
        ctx.outcome('parse_error')
        # legitimate only when no byte of the input ends the encoding
        ctx.check('trunc/no-terminator', ctx.land(*[(b & 0x80) != 0 for b in bs]))
        return
    p = st.tell()
    ctx.outcome('ok')
    ctx.observe('value', v)
    ctx.observe('consumed', p)
    ok_len = ctx.check('consumed/in-range', ctx.land(p >= 1, p <= n))
    if not ok_len:
        return
    p = ctx.concretize(p)
    ctx.check('consumed/exact', enc.leb_len_is(ctx, bs, p))
    want = enc.sleb_dec(bs[:p]) if signed else enc.uleb_dec(bs[:p])
    ctx.check('value', v == want)


# ---------------------------------------------------------------- H16.2 24-bit
def h_int24(ctx):
    n = ctx.cfg['n']
    little = ctx.cfg['little']
    CU = ctx.lib('common.construct_utils')
    EXC = ctx.lib('common.exceptions')
    bs = ctx.bytes('b', n)
    st = ctx.stream(bs)
    con = (CU.ULInt24 if little else CU.UBInt24)('x')
    try:
        v = _parse(ctx, con, st)
    except EXC.ELFParseError:
        ctx.outcome('parse_error')
        ctx.check('trunc', n < 3)
        return
    ctx.outcome('ok')
    ctx.check('not-truncated', n >= 3)
    ctx.check_eq('value', v, enc.dec_uint(bs[:3], little))
    ctx.check_eq('consumed', st.tell(), 3)


# ---------------------------------------------------------------- H16.3 fixed width
_FIXED = [(s, e, w) for s in 'US' for e in 'BL' for w in (8, 16, 32, 64)]


def _copied(con, how):
    """the decoder itself, or a copy of it made through the copy / pickle protocol the construct classes implement (__copy__,
    __getstate__, __setstate__): a copy decodes like the original"""
    import copy
    import pickle
    if how == 'copy':
        return copy.copy(con)
    if how == 'deepcopy':
        return copy.deepcopy(con)
    if how == 'pickle':
        return pickle.loads(pickle.dumps(con))
    return con


def h_fixed(ctx):
    s, e, w, n = ctx.cfg['sign'], ctx.cfg['end'], ctx.cfg['bits'], ctx.cfg['n']
    C = ctx.lib('construct')
    EXC = ctx.lib('common.exceptions')
    con = _copied(getattr(C, '%s%sInt%d' % (s, e, w))('x'), ctx.cfg.get('copy'))
    bs = ctx.bytes('b', n)
    st = ctx.stream(bs)
    size = w // 8
    try:
        v = _parse(ctx, con, st)
    except EXC.ELFParseError:
        ctx.outcome('parse_error')
        ctx.check('trunc', n < size)
        return
    ctx.outcome('ok')
    ctx.check('not-truncated', n >= size)
    little = e == 'L'
    want = enc.dec_sint(bs[:size], little) if s == 'S' else enc.dec_uint(bs[:size], little)
    ctx.check_eq('value', v, want)
    ctx.check_eq('consumed', st.tell(), size)
    ctx.check_eq('sizeof', con.sizeof(), size)
    # the other public entry point: decoding straight from a buffer (Construct.parse) - same value, whatever follows the field
    try:
        v2 = con.parse(ctx.mkbytes(bs))
    except Exception as ex:
        v2 = type(ex).__name__
    ctx.check_eq('parse(buffer)/value', v2, want)


# gABI data representation (Figure 4-2 / 4-3): name -> (bytes in ELF32, bytes in ELF64, signed)
ELF_TYPES = {'Elf_byte': (1, 1, False), 'Elf_half': (2, 2, False), 'Elf_word': (4, 4, False), 'Elf_word64': (8, 8, False), 'Elf_addr': (4, 8, False),
             'Elf_offset': (4, 8, False), 'Elf_sword': (4, 4, True), 'Elf_xword': (4, 8, False), 'Elf_sxword': (4, 8, True)}
DWARF_TYPES = {'Dwarf_uint8': (1, False), 'Dwarf_uint16': (2, False), 'Dwarf_uint32': (4, False), 'Dwarf_uint64': (8, False),
               'Dwarf_int8': (1, True), 'Dwarf_int16': (2, True), 'Dwarf_int32': (4, True), 'Dwarf_int64': (8, True)}


def _int_type_names(relpath, prefix):
    """names of the form <prefix>int<bits> / <prefix>uint<bits> that the struct factory in the current source defines"""
    import os
    import re
    repo = os.environ.get('VERIF_REPO', '/repo')
    try:
        src = open(os.path.join(repo, relpath), encoding='utf-8', errors='replace').read()
    except OSError:
        return []
    return sorted(set(re.findall(r'self\.(%su?int\d+)\b' % prefix, src)))


def h_struct_types(ctx):
    """the integer types the ELF and DWARF struct factories derive from class / byte order / format / address size"""
    cfg = ctx.cfg
    little = cfg['little']
    if cfg['family'] == 'elf':
        S = ctx.lib('elf.structs')
        st = S.ELFStructs(little_endian=little, elfclass=cfg['elfclass'])
        st.create_basic_structs()
        size32, size64, signed = ELF_TYPES[cfg['type']]
        size = size32 if cfg['elfclass'] == 32 else size64
    else:
        S = ctx.lib('dwarf.structs')
        st = S.DWARFStructs(little_endian=little, dwarf_format=cfg['fmt'], address_size=cfg['addr'])
        if cfg['type'] == 'Dwarf_offset':
            size, signed = cfg['fmt'] // 8, False
        elif cfg['type'] == 'Dwarf_length':
            size, signed = cfg['fmt'] // 8, False
        elif cfg['type'] == 'Dwarf_target_addr':
            size, signed = cfg['addr'], False
        elif cfg['type'] in DWARF_TYPES:
            size, signed = DWARF_TYPES[cfg['type']]
        else:
            # any further Dwarf_[u]int<bits> the factory defines (e.g. the 24-bit one of the three-byte index forms)
            import re
            m = re.match(r'Dwarf_(u?)int(\d+)$', cfg['type'])
            size, signed = int(m.group(2)) // 8, not m.group(1)
    con = _copied(getattr(st, cfg['type'])('x'), cfg.get('copy'))
    bs = ctx.bytes('b', size + 1)
    stream = ctx.stream(bs)
    v = _parse(ctx, con, stream)
    ctx.outcome('ok')
    want = enc.dec_sint(bs[:size], little) if signed else enc.dec_uint(bs[:size], little)
    ctx.check_eq('%s/value' % cfg['type'], v, want)
    ctx.check_eq('%s/consumed' % cfg['type'], stream.tell(), size)


# ---------------------------------------------------------------- H16.4 strings
def _ref_cstring(ctx, bs, start):
    """(found, end) with forking: first NUL at or after start"""
    for i in range(start, len(bs)):
        if ctx.fork(bs[i] == 0):
            return i
    return None


def h_cstring_stream(ctx):
    """parse_cstring_from_stream: chunked reader; every NUL position for a buffer of n bytes"""
    n = ctx.cfg['n']
    start = ctx.cfg.get('start', 0)
    use_pos = ctx.cfg.get('use_pos', True)
    U = ctx.lib('common.utils')
    fixed = ctx.cfg.get('fixed', 0)     # a long string: the first `fixed` bytes are the letter A, only the tail is symbolic
    bs = [0x41] * fixed + ctx.bytes('b', n - fixed)
    st = ctx.stream(bs, 0 if use_pos else start)
    r = U.parse_cstring_from_stream(st, start if use_pos else None)
    end = _ref_cstring(ctx, bs, start)
    if end is None:
        ctx.outcome('no-terminator')
        ctx.check_eq('result/none', r, None)
        return
    ctx.outcome('ok')
    ctx.check('result/not-none', r is not None)
    if r is None:
        return
    ctx.check_eq('result/bytes', r, ctx.mkbytes(bs[start:end]))


def h_cstring_construct(ctx):
    n = ctx.cfg['n']
    C = ctx.lib('construct')
    EXC = ctx.lib('common.exceptions')
    bs = ctx.bytes('b', n)
    st = ctx.stream(bs)
    try:
        r = _parse(ctx, C.CString('s'), st)
    except EXC.ELFParseError:
        ctx.outcome('parse_error')
        ctx.check('trunc/no-terminator', ctx.land(*[b != 0 for b in bs]))
        return
    end = _ref_cstring(ctx, bs, 0)
    ctx.outcome('ok')
    ctx.check('terminated', end is not None)
    if end is None:
        return
    ctx.check_eq('result/bytes', r, ctx.mkbytes(bs[:end]))
    ctx.check_eq('consumed', st.tell(), end + 1)


def h_prefixed_array(ctx):
    """PrefixedArray(ULInt8 items, <length field>) with symbolic count"""
    kind = ctx.cfg['prefix']
    n = ctx.cfg['n']
    C = ctx.lib('construct')
    CU = ctx.lib('common.construct_utils')
    EXC = ctx.lib('common.exceptions')
    pref = {'u8': C.ULInt8, 'ub16': C.UBInt16, 'ul16': C.ULInt16, 'ul32': C.ULInt32, 'uleb': CU.ULEB128}[kind]('length')
    psize = {'u8': 1, 'ub16': 2, 'ul16': 2, 'ul32': 4, 'uleb': None}[kind]
    bs = ctx.bytes('b', n)
    st = ctx.stream(bs)
    con = C.PrefixedArray(C.ULInt8('elem'), pref)
    try:
        r = _parse(ctx, con, st)
    except EXC.ELFParseError:
        ctx.outcome('parse_error')
        # reference: prefix missing/incomplete, or declared count exceeds what is left
        if kind == 'uleb':
            k = None
            for i in range(n):
                if ctx.fork((bs[i] & 0x80) == 0):
                    k = i + 1
                    break
            if k is None:
                ctx.check('trunc/prefix', True)
                return
            cnt = enc.uleb_dec(bs[:k])
        else:
            if n < psize:
                ctx.check('trunc/prefix', True)
                return
            k = psize
            cnt = enc.dec_uint(bs[:k], kind in ('ul16', 'ul32', 'u8'))
        ctx.check('trunc/count-exceeds-input', cnt > n - k)
        return
    ctx.outcome('ok')
    p = ctx.concretize(st.tell())
    cnt_len = len(r)
    k = p - cnt_len
    ctx.check('layout', k >= 1)
    if k < 1:
        return
    if kind == 'uleb':
        ctx.check('prefix/len', enc.leb_len_is(ctx, bs, k))
        cnt = enc.uleb_dec(bs[:k])
    else:
        ctx.check_eq('prefix/size', k, psize)
        cnt = enc.dec_uint(bs[:k], kind in ('ul16', 'ul32', 'u8'))
    ctx.check('count', cnt == cnt_len)
    ctx.check_eq('elements', list(r), list(bs[k:p]))


def h_repeat_until_excluding(ctx):
    n = ctx.cfg['n']
    C = ctx.lib('construct')
    CU = ctx.lib('common.construct_utils')
    EXC = ctx.lib('common.exceptions')
    bs = ctx.bytes('b', n)
    st = ctx.stream(bs)
    con = CU.RepeatUntilExcluding(lambda obj, c: obj == 0, C.ULInt8('e'))
    try:
        r = _parse(ctx, con, st)
    except EXC.ELFParseError:
        ctx.outcome('parse_error')
        ctx.check('trunc/no-terminator', ctx.land(*[b != 0 for b in bs]))
        return
    ctx.outcome('ok')
    end = _ref_cstring(ctx, bs, 0)
    ctx.check('terminated', end is not None)
    if end is None:
        return
    ctx.check_eq('elements', list(r), list(bs[:end]))
    ctx.check_eq('consumed', st.tell(), end + 1)


# ---------------------------------------------------------------- H16.5 initial length
def h_initial_length(ctx):
    n = ctx.cfg['n']
    little = ctx.cfg['little']
    S = ctx.lib('dwarf.structs')
    EXC = ctx.lib('common.exceptions')
    structs = S.DWARFStructs(little_endian=little, dwarf_format=32, address_size=4)
    bs = ctx.bytes('b', n)
    st = ctx.stream(bs)
    first = enc.dec_uint(bs[:4], little) if n >= 4 else None
    try:
        v = _parse(ctx, structs.Dwarf_initial_length('len'), st)
    except EXC.ELFParseError:
        ctx.outcome('parse_error')
        if n < 4:
            ctx.check('trunc/first-word', True)
        else:
            reserved = ctx.land(first >= 0xffffff00, first != 0xffffffff)
            trunc64 = ctx.land(first == 0xffffffff, n < 12)
            ctx.check('reject/reserved-or-truncated', ctx.lor(reserved, trunc64))
        return
    ctx.outcome('ok')
    ctx.check('not-truncated', n >= 4)
    if n < 4:
        return
    p = ctx.concretize(st.tell())
    if p == 4:
        ctx.check('32bit/first-word-below-escape', first < 0xffffff00)
        ctx.check_eq('32bit/value', v, first)
    else:
        ctx.check_eq('64bit/consumed', p, 12)
        ctx.check('64bit/escape', first == 0xffffffff)
        if n >= 12:
            ctx.check_eq('64bit/value', v, enc.dec_uint(bs[4:12], little))


def _cstr_lens(tier):
    if tier == 'quick':
        return [0, 1, 2, 3, 31, 63, 64, 65, 66, 127, 128, 129, 130]
    return list(range(0, 201))


LONG_STRINGS = (4093, 65533, 65600, 131070)    # strings around 4 KiB, 64 KiB and 128 KiB (a DW_AT_producer or a mangled name can be that long)

from harness import c12 as C12

HARNESSES = [
    H('h16_4_counted_blocks_in_expressions', C12.h_one_op, lambda tier: [c for c in C12._one_op_instances(tier) if any('blob' in sh for sh in c.get('shapes', []))], expect=('ok',),
      desc='length-prefixed blocks inside expressions (implicit_value, typed constants, entry_value): block lengths 0.. incl. the empty block, read by read_blob (harness shared with C12)'),
    H('h16_1_leb128', h_leb,
      lambda tier: [dict(n=n, signed=s) for s in (False, True) for n in range(0, (17 if tier == 'quick' else 25))],
      expect=('ok', 'parse_error'),
      desc='ULEB128/SLEB128._parse on every byte string of length n (all bytes symbolic): value, exact consumption, truncation error',
      bounds={'quick': 'all byte strings of length 0..16', 'thorough': 'all byte strings of length 0..24'}),
    H('h16_2_int24', h_int24,
      lambda tier: [dict(n=n, little=l) for l in (False, True) for n in range(0, 6)],
      expect=('ok', 'parse_error'),
      desc='UBInt24/ULInt24 on n symbolic bytes: one query covers all 2^24 values per byte order',
      bounds={'all': 'inputs of 0..5 bytes, all values'}),
    H('h16_3_fixed', h_fixed,
      lambda tier: [dict(sign=s, end=e, bits=w, n=n) for (s, e, w) in _FIXED for n in sorted({0, w // 8 - 1, w // 8, w // 8 + 1})] +
                   [dict(sign=s, end=e, bits=w, n=w // 8, copy=how) for (s, e, w) in _FIXED for how in ('copy', 'deepcopy', 'pickle')],
      expect=('ok', 'parse_error'),
      desc='every {U,S}{B,L}Int{8,16,32,64} macro: value formula, consumption, short input',
      bounds={'all': 'all values; input lengths 0, size-1, size, size+1'}),
    H('h16_3_struct_types', h_struct_types,
      lambda tier: [dict(family='elf', elfclass=c, little=l, type=t) for c in (32, 64) for l in (True, False) for t in sorted(ELF_TYPES)] +
                   [dict(family='dwarf', fmt=f, addr=a, little=l, type=t) for f in (32, 64) for a in (4, 8) for l in (True, False)
                    for t in sorted(set(DWARF_TYPES) | set(_int_type_names('elftools/dwarf/structs.py', 'Dwarf_'))) + ['Dwarf_offset', 'Dwarf_length', 'Dwarf_target_addr'] if (f, a) in ((32, 8), (64, 4)) or t.startswith('Dwarf_t') or t in ('Dwarf_offset', 'Dwarf_length')],
      expect=('ok',),
      desc='every integer type of ELFStructs (per class and byte order: Elf_byte .. Elf_sxword, width and signedness per the gABI data representation) and of DWARFStructs '
           '(per format, address size and byte order) on symbolic bytes: value and exact consumption'),
    H('h16_6_counted_location_description', C7.h_v5, lambda tier: [c for c in C7._v5_instances(tier) if any(len(k) > 2 for k in c['kinds'])], expect=('ok',),
      desc='the ULEB128-counted location description of DWARF 5 location-list entries with 2- and 3-byte (padded) lengths (harness shared with C07)'),
    H('h16_7_cie_header_fields', C6.h_scan, lambda tier: [c for c in C6._scan_instances(tier) if not c['eh'] and not c.get('fmt64') and len(c['entries']) == 2],
      expect=('ok',), desc='the LEB128 fields of CIE headers (code/data alignment, return address register: unsigned for versions 3 and 4, one byte in version 1) '
                           'with symbolic field bytes (harness shared with C06)'),
    H('h16_4_cstring_stream', h_cstring_stream,
      lambda tier: [dict(n=n, start=0) for n in _cstr_lens(tier)] + [dict(n=n, start=s, use_pos=u) for n in (70, 130) for s in (1, 5, 64) for u in (True, False)] +
                   [dict(n=f + 3, start=0, fixed=f) for f in LONG_STRINGS],
      expect=('ok', 'no-terminator'),
      desc='parse_cstring_from_stream (64-byte chunked reader) for every position of the first NUL in buffers of n symbolic bytes',
      bounds={'quick': 'n in {0,1,2,3,31,63..66,127..130}', 'thorough': 'n = 0..200'}),
    H('h16_4_cstring_construct', h_cstring_construct,
      lambda tier: [dict(n=n) for n in (range(0, 9) if tier == 'quick' else range(0, 40))],
      expect=('ok', 'parse_error'),
      desc='construct CString on n symbolic bytes'),
    H('h16_4_prefixed_array', h_prefixed_array,
      lambda tier: [dict(prefix=k, n=n) for k in ('u8', 'ub16', 'ul16', 'ul32', 'uleb') for n in range(0, (8 if tier == 'quick' else 11))],
      expect=('ok', 'parse_error'),
      desc='PrefixedArray with 1/2/4-byte and ULEB128 length prefixes on n symbolic bytes',
      budget={'quick': {'conc_cap': 300}, 'thorough': {'conc_cap': 600}}),
    H('h16_4_repeat_until_excl', h_repeat_until_excluding,
      lambda tier: [dict(n=n) for n in range(0, (7 if tier == 'quick' else 12))],
      expect=('ok', 'parse_error'),
      desc='RepeatUntilExcluding on n symbolic bytes'),
    H('h16_5_initial_length', h_initial_length,
      lambda tier: [dict(n=n, little=l) for l in (False, True) for n in (0, 3, 4, 5, 11, 12, 13)],
      expect=('ok', 'parse_error'),
      desc='DWARF initial length: first word over the full 32-bit range; 4/12 byte consumption; reserved escapes rejected'),
]
