"""C17 - symbolic names and numeric codes follow the ELF and DWARF registries."""
import inspect
from symx.api import H
from spec import registry as REG
from harness import c02 as C2
from harness import c05 as C5
from harness import c08 as C8
from harness import c04 as C4
from harness import c06 as C6
from harness import c03 as C3

PROPERTY = 'C17'
ASSUMPTIONS = [
    'registry = vendored glibc elf.h + LLVM-14 BinaryFormat (ELF.h, ELFRelocs/*.def, DynamicTags.def, Dwarf.def, Dwarf.h) + registry/supplement.json',
    'a name is checked iff at least one registry defines it; it passes iff its value equals the value in a registry that defines it',
]
STUBS = []
OUTSIDE = ['names that no vendored registry defines (counted in the evidence as unchecked)',
           'completeness (a registry code the library has no name for is reported raw, which the statement allows)']

MACHINES = [None, 'EM_ARM', 'EM_AARCH64', 'EM_X86_64', 'EM_MIPS', 'EM_RISCV', 'EM_386']


def _accepted(name):
    vals = set(REG.values(name))
    vals |= set(REG.supplement().get(name, []))
    return vals


def _walk(con, out, seen):
    if con is None or id(con) in seen:
        return
    seen.add(id(con))
    if type(con).__name__ == 'MappingAdapter':
        out.append(con)
    for attr in ('subcon', 'inner_subcon', 'length_field', 'default', 'thensubcon', 'elsesubcon'):
        try:
            sub = getattr(con, attr)
        except AttributeError:
            continue
        if hasattr(sub, '_parse'):
            _walk(sub, out, seen)
    for attr in ('subcons',):
        try:
            subs = getattr(con, attr)
        except AttributeError:
            continue
        for s in subs:
            _walk(s, out, seen)
    try:
        cases = getattr(con, 'cases')
    except AttributeError:
        cases = None
    if isinstance(cases, dict):
        for s in cases.values():
            if hasattr(s, '_parse'):
                _walk(s, out, seen)


def _adapters_of(structs):
    out, seen = [], set()
    for name in sorted(vars(structs)):
        v = vars(structs)[name]
        if hasattr(v, '_parse') and hasattr(v, 'name'):
            sub = []
            _walk(v, sub, seen)
            out += [(name, a) for a in sub]
    return out


def _field_bits(adapter):
    try:
        return 8 * adapter.subcon.sizeof()
    except Exception:
        return 32      # LEB128-backed enumerations: codes are checked over 32 bits


# names that belong to one processor / OS context: in an object of that context a code is reported under the context's name, never under
# the name another vendor gave the same code (e.g. 0x6000000f is DT_SUNW_FILTER in a Solaris object and DT_ANDROID_REL elsewhere)
CONTEXT_PREFIX = {
    'EM_ARM': {'sh_type': ['SHT_ARM_'], 'p_type': ['PT_ARM_']},
    'EM_AARCH64': {'sh_type': ['SHT_AARCH64_'], 'p_type': ['PT_AARCH64_'], 'd_tag': ['DT_AARCH64_']},
    'EM_MIPS': {'sh_type': ['SHT_MIPS_'], 'p_type': ['PT_MIPS_'], 'd_tag': ['DT_MIPS_']},
    'EM_RISCV': {'sh_type': ['SHT_RISCV_'], 'p_type': ['PT_RISCV_'], 'd_tag': ['DT_RISCV_']},
    'EM_X86_64': {'sh_type': ['SHT_X86_64_']},
    'ELFOSABI_SOLARIS': {'d_tag': ['DT_SUNW_']},
    'ET_CORE': {'n_type': ['NT_']},
}
ALL_CONTEXT_PREFIXES = sorted({p for d in CONTEXT_PREFIX.values() for ps in d.values() for p in ps if p != 'NT_'})
FIELD_PREFIX = {'sh_type': 'SHT_', 'p_type': 'PT_', 'd_tag': 'DT_', 'n_type': 'NT_', 'e_type': 'ET_', 'e_machine': 'EM_', 'ch_type': 'ELFCOMPRESS_'}
_MARKERS = ('LOOS', 'HIOS', 'LOPROC', 'HIPROC', 'LOUSER', 'HIUSER', 'LOSUNW', 'HISUNW', 'NUM')
_VOCAB = {}


def _vocabulary(ctx, field, machine, osabi, e_type):
    """codes that the library's own enumeration tables name (with a registry-confirmed value) for this field and that belong to
    this context: such a code must be reported by name, not left raw"""
    pre = FIELD_PREFIX.get(field)
    if pre is None:
        return []
    key = (field, machine, osabi, e_type)
    if key not in _VOCAB:
        EN = ctx.lib('elf.enums')
        mine = [p for k in (machine, osabi) for ps in [CONTEXT_PREFIX.get(k, {}).get(field, [])] for p in ps]
        vals = set()
        for n in dir(EN):
            d = getattr(EN, n)
            if not (n.startswith('ENUM') and isinstance(d, dict)):
                continue
            for name, v in d.items():
                if not (isinstance(name, str) and name.startswith(pre) and isinstance(v, int)) or name.rsplit('_', 1)[-1] in _MARKERS:
                    continue
                if v not in _accepted(name):
                    continue
                own = [p for p in ALL_CONTEXT_PREFIXES if name.startswith(p)]
                if own and not any(p in mine for p in own):
                    continue
                if field == 'n_type' and (name.startswith('NT_GNU_') == (e_type == 'ET_CORE')):
                    continue
                vals.add(v)
        _VOCAB[key] = sorted(vals)
    return _VOCAB[key]


_NAMES = {}


def _names_of_field(ctx, field, machine, osabi, e_type):
    """names of the library's enumeration tables (with a registry-confirmed value) that belong to this field in this context"""
    pre = FIELD_PREFIX.get(field)
    if pre is None:
        return []
    key = (field, machine, osabi, e_type)
    if key not in _NAMES:
        EN = ctx.lib('elf.enums')
        mine = [p for k in (machine, osabi) for ps in [CONTEXT_PREFIX.get(k, {}).get(field, [])] for p in ps]
        names = set()
        for n in dir(EN):
            d = getattr(EN, n)
            if not (n.startswith('ENUM') and isinstance(d, dict)):
                continue
            for name, v in d.items():
                if not (isinstance(name, str) and name.startswith(pre) and isinstance(v, int)) or v not in _accepted(name):
                    continue
                own = [p for p in ALL_CONTEXT_PREFIXES if name.startswith(p)]
                if own and not any(p in mine for p in own):
                    continue
                if field == 'n_type' and (name.startswith('NT_GNU_') == (e_type == 'ET_CORE')):
                    continue
                names.add(name)
        _NAMES[key] = sorted(names)
    return _NAMES[key]


def _context_names(machine, osabi, field, e_type=None):
    """code -> set of names the registries define for it in this processor / OS / file-type context (empty dict: no context-specific names)"""
    out = {}
    for key in (machine, osabi, e_type):
        for pre in CONTEXT_PREFIX.get(key, {}).get(field, []):
            names = [n for n in REG.registry() if n.startswith(pre)] + [n for n in REG.supplement() if n.startswith(pre)]
            for n in names:
                if n.endswith('_NUM'):      # table-size markers (DT_AARCH64_NUM, DT_MIPS_NUM), not codes
                    continue
                if key == 'ET_CORE' and n.startswith('NT_GNU_'):     # the GNU note types are those of linked objects, not of core files
                    continue
                for v in _accepted(n):
                    out.setdefault(v, set()).add(n)
    return out


def _check_decode(ctx, where, decode, bits, signed=False, prefer=None, named=None):
    """run the library's own decode step on a symbolic code v: a reported name must be the registry's name for v"""
    v = ctx.sint('v', bits) if signed else ctx.uint('v', bits)
    try:
        r = decode(v)
    except ctx.lib('construct').MappingError:
        # an enumeration without pass-through default rejects unknown codes; nothing is reported
        ctx.check('%s/rejected-code-has-no-name' % where, True)
        return 0
    alts = ctx.alternatives(r)
    nchecked = 0
    for cond, obj in alts:
        if isinstance(obj, str):
            acc = _accepted(obj)
            if not acc:
                continue
            nchecked += 1
            ctx.check('%s/%s' % (where, obj), ctx.implies(cond, ctx.lor(*[v == a for a in sorted(acc)])))
            # context priority: where the context's registry names code c, a name reported for c is one of the context's names
            clash = [c for c in sorted(prefer or {}) if c in acc and obj not in prefer[c]]
            if prefer:
                ctx.check('%s/context-priority/%s' % (where, obj), ctx.implies(cond, ctx.land(*[v != c for c in clash])) if clash else True)
        else:
            # raw pass-through: must be the code itself
            ctx.check('%s/raw' % where, ctx.implies(cond, ctx.eq(obj, v)))
            if named:
                ctx.check('%s/named-code-not-left-raw' % where, ctx.implies(cond, ctx.land(*[v != c for c in named])))
    return nchecked


# ------------------------------------------------------------------ H17.1 decode direction
def h_decode_elf(ctx):
    S = ctx.lib('elf.structs')
    C = ctx.lib('construct')
    cfg = ctx.cfg
    st = S.ELFStructs(little_endian=cfg['little'], elfclass=cfg['elfclass'])
    st.create_basic_structs()
    st.create_advanced_structs(cfg.get('e_type'), cfg['machine'], cfg.get('osabi'))
    if cfg.get('copied'):
        # a copy made through the pickle protocol (copy.deepcopy, multiprocessing) rebuilds the structs from
        # (byte order, class, file type, machine, OS ABI): it must name codes like the original
        import copy
        st = copy.deepcopy(st)
    ads = _adapters_of(st)
    idx = cfg['adapter']
    if idx >= len(ads):
        ctx.outcome('no-such-adapter')
        ctx.check('adapter-index-beyond-table', True)
        return
    owner, ad = ads[idx]
    where = '%s.%s' % (owner, ad.subcon.name)
    signed = type(ad.subcon).__name__ == 'FormatField' and ad.subcon.packer.format[-1] in 'bhilq'
    n = _check_decode(ctx, where, lambda v: ad._decode(v, C.Container()), _field_bits(ad), signed,
                      prefer=_context_names(cfg['machine'], cfg.get('osabi'), ad.subcon.name, cfg.get('e_type')),
                      named=_vocabulary(ctx, ad.subcon.name, cfg['machine'], cfg.get('osabi'), cfg.get('e_type')))
    # the other direction ("a standard name selects the standard code"): every name of the library's tables that belongs to this field and
    # context - also one that shares its code with another name (EM_ECOG1/EM_ECOG1X, DT_ENCODING/DT_PREINIT_ARRAY) - encodes to its registry code
    for name in _names_of_field(ctx, ad.subcon.name, cfg['machine'], cfg.get('osabi'), cfg.get('e_type')):
        try:
            code = ad._encode(name, C.Container())
        except C.MappingError:
            code = None
        ctx.check('%s/name-selects-code/%s' % (where, name), isinstance(code, int) and code in _accepted(name))
    ctx.outcome('ok')


def h_class_independent(ctx):
    """the name reported for a code of a machine does not depend on the file class (x32 / ILP32 / n32 objects use the 32-bit class of a
    64-bit machine) nor on the byte order: same machine, same code -> same name in all four struct factories"""
    S = ctx.lib('elf.structs')
    C = ctx.lib('construct')
    cfg = ctx.cfg
    views = []
    v = ctx.uint('v', 32)
    for little, cls in ((True, 64), (True, 32), (False, 32), (False, 64)):
        st = S.ELFStructs(little_endian=little, elfclass=cls)
        st.create_basic_structs()
        st.create_advanced_structs(cfg.get('e_type'), cfg['machine'], cfg.get('osabi'))
        ad = [a for owner, a in _adapters_of(st) if owner == cfg['owner'] and a.subcon.name == cfg['field']]
        if not ad:
            ctx.outcome('no-such-field')
            ctx.check('field-absent', True)
            return
        try:
            r = ad[0]._decode(v, C.Container())
        except C.MappingError:
            r = '<rejected>'
        views.append([(cond, obj if isinstance(obj, str) else '<raw>') for cond, obj in ctx.alternatives(r)])
    ctx.outcome('ok')
    base = views[0]
    for k, other in enumerate(views[1:]):
        clash = [ctx.land(c1, c2) for c1, o1 in base for c2, o2 in other if o1 != o2]
        ctx.check('%s.%s/same-name-in-every-class-and-byte-order/%d' % (cfg['owner'], cfg['field'], k), ctx.lnot(ctx.lor(*clash)) if clash else True)


def h_decode_dwarf(ctx):
    S = ctx.lib('dwarf.structs')
    C = ctx.lib('construct')
    cfg = ctx.cfg
    st = S.DWARFStructs(little_endian=True, dwarf_format=32, address_size=8, dwarf_version=cfg['version'])
    ads = _adapters_of(st)
    idx = cfg['adapter']
    if idx >= len(ads):
        ctx.outcome('no-such-adapter')
        ctx.check('adapter-index-beyond-table', True)
        return
    owner, ad = ads[idx]
    where = '%s.%s' % (owner, ad.subcon.name)
    _check_decode(ctx, where, lambda v: ad._decode(v, C.Container()), _field_bits(ad))
    ctx.outcome('ok')


def _reverse_tables(ctx):
    """value -> name maps the library builds for reporting (not behind an Enum adapter)"""
    EE = ctx.lib('elf.enums')
    DE = ctx.lib('dwarf.enums')
    DX = ctx.lib('dwarf.dwarf_expr')
    CF = ctx.lib('dwarf.callframe')
    DESC = ctx.lib('elf.descriptions')
    out = {}
    for n in sorted(dir(DESC)):
        d = getattr(DESC, n)
        if (n.startswith('_DESCR_RELOC_TYPE') or n == '_DESCR_D_TAG') and isinstance(d, dict):
            out['elf.descriptions.' + n] = d
    out['dwarf.enums.DW_FORM_raw2name'] = DE.DW_FORM_raw2name
    out['dwarf_expr.DW_OP_opcode2name'] = DX.DW_OP_opcode2name
    out['callframe._OPCODE_NAME_MAP'] = CF._OPCODE_NAME_MAP
    return out


def h_decode_reverse(ctx):
    tabs = _reverse_tables(ctx)
    name = ctx.cfg['table']
    d = {k: v for k, v in tabs[name].items() if isinstance(k, int)}
    bits = 32 if max(d) > 255 else 8

    def look(v):
        return ctx.table_get(d, v)
    try:
        _check_decode(ctx, name, look, bits)
    except KeyError:
        ctx.outcome('not-in-table')
        ctx.check('miss', True)
        return
    ctx.outcome('ok')


# ------------------------------------------------------------------ H17.2 encode direction (ground)
def _exported_pairs(ctx):
    EE = ctx.lib('elf.enums')
    EC = ctx.lib('elf.constants')
    DE = ctx.lib('dwarf.enums')
    DC = ctx.lib('dwarf.constants')
    DX = ctx.lib('dwarf.dwarf_expr')
    out = {}
    for tag, mod in (('elf.enums', EE), ('dwarf.enums', DE)):
        for n in sorted(dir(mod)):
            d = getattr(mod, n)
            if isinstance(d, dict) and n.startswith('ENUM'):
                prs = [(k, v) for k, v in d.items() if isinstance(k, str) and isinstance(v, int) and k != '_default_']
                if prs:
                    out['%s.%s' % (tag, n)] = prs
    for n, c in inspect.getmembers(EC, inspect.isclass):
        prs = [(k, v) for k, v in vars(c).items() if isinstance(v, int) and not k.startswith('_')]
        if prs:
            out['elf.constants.' + n] = prs
    out['dwarf.constants'] = [(n, getattr(DC, n)) for n in sorted(dir(DC)) if n.startswith('DW_') and isinstance(getattr(DC, n), int)]
    out['dwarf_expr.DW_OP_name2opcode'] = sorted(DX.DW_OP_name2opcode.items())
    return out


def h_tables(ctx):
    tabs = _exported_pairs(ctx)
    names = sorted(tabs)
    i = ctx.cfg['table']
    if i >= len(names):
        ctx.outcome('no-such-table')
        ctx.check('table-index-beyond-list', True)
        return
    t = names[i]
    unchecked = 0
    for name, value in tabs[t]:
        acc = _accepted(name)
        if not acc:
            unchecked += 1
            continue
        ctx.check('%s/%s' % (t, name), value in acc)
    ctx.observe('unchecked', unchecked)
    ctx.outcome('ok')


# ------------------------------------------------------------------ H17.8 a name selects its code through the filtering accessors
def h_filters(ctx):
    """iter_segments(type=NAME), iter_sections(type=NAME), Dynamic.iter_tags(type=NAME): asking for the name under which an entry is REPORTED selects
    exactly the entries reported under that name - for every code of the field the registries name in this processor / OS context (one file
    holding one program header, one section and one dynamic entry per code)."""
    from harness.elfkit import Image, open_elf
    from harness import c01 as C1
    from spec import elf_layout as L
    cfg = ctx.cfg
    cls, little, machine, osabi = cfg['elfclass'], cfg['little'], cfg['machine'], cfg.get('osabi')
    EF = ctx.lib('elf.elffile')
    EM = {None: 0, 'EM_ARM': 40, 'EM_AARCH64': 183, 'EM_X86_64': 62, 'EM_MIPS': 8, 'EM_RISCV': 243, 'EM_386': 3}[machine]
    img = Image(cls, little, machine=EM, osabi=6 if osabi == 'ELFOSABI_SOLARIS' else 0)

    def codes(field):
        out = set()
        for n in _names_of_field(ctx, field, machine, osabi, None):
            out |= {v for v in _accepted(n) if 0 <= v < (1 << 32)}
        return sorted(out)
    pcodes, scodes, dcodes = codes('p_type'), [c for c in codes('sh_type') if c != 0], [c for c in codes('d_tag') if c != 0]
    img.section('', sh_type=0)
    stroff = img.blob([0, 0x61, 0])
    img.section('.strtab', sh_type=3, sh_offset=stroff, sh_size=3)
    symsz, dynsz = L.sizeof('SYM', cls), L.sizeof('DYN', cls)
    symoff = img.blob([0] * symsz, align=8)
    img.section('.symtab', sh_type=2, sh_offset=symoff, sh_size=symsz, sh_entsize=symsz, sh_link=1)
    zoff = img.blob([0] * 32, align=8)
    aoff = img.blob([0x41] + [0] * 31, align=8)            # build-attribute sections are checked for their format version ('A') on construction
    dynoff = img.blob(sum([L.encode('DYN', cls, little, dict(d_tag=t, d_val=0)) for t in dcodes + [0]], []), align=8)
    for c in scodes:
        link = 2 if c in C1.LINK_SYMTAB else 1 if c in C1.LINK_STRTAB else 0
        if c == 6:
            img.section('.dynamic', sh_type=6, sh_offset=dynoff, sh_size=(len(dcodes) + 1) * dynsz, sh_entsize=dynsz, sh_link=1)
        else:
            img.section('.s%x' % c, sh_type=c, sh_offset=aoff if c >= 0x70000000 else zoff, sh_size=32, sh_link=link, sh_entsize={4: L.sizeof('RELA', cls), 9: L.sizeof('REL', cls), 19: cls // 8}.get(c, 8))
    img.add_shstrtab()
    for i, c in enumerate(pcodes):
        img.segment(p_type=c, p_offset=dynoff if c == 2 else zoff, p_vaddr=i, p_filesz=(len(dcodes) + 1) * dynsz if c == 2 else 32)
    elf = open_elf(ctx, img.build())
    ctx.outcome('ok')
    where = '%s/%s' % (machine, osabi)
    # segments
    allsegs = [(s['p_type'], s['p_vaddr']) for s in elf.iter_segments()]
    ctx.check_eq('filters/%s/segments/count' % where, len(allsegs), len(pcodes))
    for t in sorted({t for t, _ in allsegs}, key=str):
        ctx.check_eq('filters/%s/iter_segments(type=%s)' % (where, t), [s['p_vaddr'] for s in elf.iter_segments(type=t)], [v for tt, v in allsegs if tt == t])
    # sections
    allsecs = [(s['sh_type'], s.name) for s in elf.iter_sections()]
    ctx.check_eq('filters/%s/sections/count' % where, len(allsecs), len(scodes) + 4)
    for t in sorted({t for t, _ in allsecs}, key=str):
        ctx.check_eq('filters/%s/iter_sections(type=%s)' % (where, t), [s.name for s in elf.iter_sections(type=t)], [n for tt, n in allsecs if tt == t])
    # dynamic entries, through the section and through the segment
    views = [('section', elf.get_section_by_name('.dynamic'))] + [('segment', s) for s in elf.iter_segments() if type(s).__name__ == 'DynamicSegment']
    ctx.check_eq('filters/%s/dynamic/views' % where, [v for v, _ in views], ['section', 'segment'])
    for vname, dyn in views:
        if dyn is None:
            continue
        alltags = [t.entry.d_tag for t in dyn.iter_tags()]
        ctx.check_eq('filters/%s/dynamic/%s/count' % (where, vname), len(alltags), len(dcodes) + 1)
        for t in sorted(set(alltags), key=str):
            ctx.check_eq('filters/%s/dynamic/%s/iter_tags(type=%s)' % (where, vname, t), [x.entry.d_tag for x in dyn.iter_tags(type=t)], [tt for tt in alltags if tt == t])


def _elf_instances(tier):
    out = []
    cfgs = [(True, 64), (False, 32)] if tier == 'quick' else [(l, c) for l in (True, False) for c in (32, 64)]
    for little, cls in cfgs:      # both classes also in the quick tier: a machine's names must not depend on the class (x32, ILP32 objects)
        for m in MACHINES:
            for osabi in ((None,) if m else (None, 'ELFOSABI_SOLARIS')):
                for et in (None, 'ET_CORE'):
                    for a in range(0, 40):
                        out.append(dict(little=little, elfclass=cls, machine=m, osabi=osabi, e_type=et, adapter=a))
                        if (m in ('EM_MIPS', 'EM_AARCH64') and et == 'ET_CORE') or osabi:
                            out.append(dict(little=little, elfclass=cls, machine=m, osabi=osabi, e_type=et, adapter=a, copied=True))
    return out


HARNESSES = [
    H('h17_1_decode_elf', h_decode_elf, _elf_instances, expect=('ok',),
      desc='every Enum adapter reachable from ELFStructs (per machine / OS ABI / file type): the real MappingAdapter._decode on a symbolic '
           'code v over the full field width; if it reports name s then some registry assigns v to s',
      bounds={'all': 'all code values of the field width (8/16/32/64 bit)', 'quick': 'ELF64 LSB x 7 machines x Solaris x ET_CORE', 'thorough': 'both classes and byte orders'}),
    H('h17_5_class_independent', h_class_independent,
      lambda tier: [dict(machine=m, owner=o, field=f) for m in MACHINES + ['EM_PPC64', 'EM_S390', 'EM_SPARC', 'EM_LOONGARCH']
                    for o, f in (('Elf_Shdr', 'sh_type'), ('Elf_Phdr', 'p_type'), ('Elf_Dyn', 'd_tag'), ('Elf_Sym', 'st_shndx'), ('Elf_Nhdr', 'n_type'))],
      expect=('ok',), decoy=-1,
      desc='per machine: the name (or rawness) of every 32-bit code of sh_type / p_type / d_tag / st_shndx / n_type is the same in the four (class, byte order) struct factories'),
    H('h17_1_decode_dwarf', h_decode_dwarf,
      lambda tier: [dict(version=v, adapter=a) for v in (2, 4, 5) for a in range(0, 24)], expect=('ok',),
      desc='every Enum adapter reachable from DWARFStructs: decode of a symbolic 32-bit code'),
    H('h17_1_decode_reverse', h_decode_reverse,
      lambda tier: [dict(table=t) for t in _REVERSE_NAMES], expect=('ok',),
      desc='value->name maps the library builds for reporting (relocation descriptions, DW_FORM_raw2name, DW_OP_opcode2name, CFA opcode map): lookup of a symbolic code'),
    H('h17_3_reloc_type_field', C8.h_entry, lambda tier: [dict(elfclass=c, little=l, rela=True, mips=m) for c, l, m in
                                                         ((64, True, True), (64, False, True), (64, True, False), (64, False, False), (32, True, False), (32, False, False))],
      expect=('ok',),
      desc='the relocation type code that gets named is the one the entry encodes: r_info split per class, MIPS64 packed layout in both byte orders (harness shared with C08)'),
    H('h17_4_form_codes_in_entries', C4.h_forms, lambda tier: [c for c in C4._form_instances(tier) if c['via'] in ('indirect', 'indirect2') and (c['form'] >= 0x80 or c['form'] in (0x0b, 0x0e, 0x17, 0x1a))],
      expect=('ok',),
      desc='form codes stored in entries (after DW_FORM_indirect, a ULEB128: the two-byte GNU vendor forms included) are reported under their registry names (harness shared with C04)'),
    H('h17_6_line_content_type_names', C5.h_header,
      lambda tier: [c for c in C5._header_instances(tier) if c['ver'] == 5 and len(c['shape'].get('file_format', [])) >= 2],
      decoy='all', expect=('ok',),
      desc='DW_LNCT_* content type codes of DWARF 5 line-program headers are reported under their standard names, also after another header whose entry formats '
           'have the same forms with other content types (decoy runs; harness shared with C05)'),
    H('h17_7_compression_codes_in_headers', C2.h_compressed,
      lambda tier: [c for c in C2.HARNESSES[1].instances(tier) if c['plain'] == 2 and c['pad'] == 0],
      expect=('ok', 'rejected', 'zlib-error'),
      desc='the compression code of an Elf32/64_Chdr of fully symbolic bytes, in both classes and byte orders, is acted upon under its standard name: a '
           'section is inflated exactly when ch_type is ELFCOMPRESS_ZLIB (harness shared with C02)'),
    H('h17_8_filters', h_filters, lambda tier: [dict(elfclass=c, little=l, machine=m, osabi=o) for (c, l) in ((64, True), (32, False)) for m in MACHINES for o in ((None,) if m else (None, 'ELFOSABI_SOLARIS'))], expect=('ok',), decoy=-1,
      desc='a name selects its code through the accessors that filter by type name: iter_segments(type=), iter_sections(type=), Dynamic.iter_tags(type=) given the name an entry is reported under yield exactly the entries '
           'reported under it, for every code the registries name for the field in the processor / OS context (ground instances: one file per context with one entry per code)'),
    H('h17_9_call_frame_instruction_names', C6.h_instr, lambda tier: [c for c in C6._instr_instances(tier) if not c.get('pre')], expect=('ok', 'rejected'),
      desc='call-frame instruction codes in entries are reported under their registry names: every opcode byte (the three primary opcodes with a symbolic 6-bit operand: all 64 values) through instruction_name (harness shared with C06)'),
    H('h17_10_symbol_field_codes', C3.h_sym_layout, lambda tier: [dict(elfclass=c, little=l) for c, l in ((64, True), (32, False))], expect=('ok',),
      desc='symbol binding, type, visibility and section index codes are named from the bits the ABI assigns to each field (visibility = st_other & 7: the Solaris visibilities 4-6 included), every byte of Elf_Sym symbolic (harness shared with C03)'),
    H('h17_2_tables', h_tables, lambda tier: [dict(table=i) for i in range(0, 90)], expect=('ok',),
      desc='every exported (name, value) pair whose name a registry defines: value equals a registry value (ground obligations)'),
]

_REVERSE_NAMES = [
    'elf.descriptions._DESCR_RELOC_TYPE_i386', 'elf.descriptions._DESCR_RELOC_TYPE_x64', 'elf.descriptions._DESCR_RELOC_TYPE_ARM',
    'elf.descriptions._DESCR_RELOC_TYPE_AARCH64', 'elf.descriptions._DESCR_RELOC_TYPE_MIPS', 'elf.descriptions._DESCR_RELOC_TYPE_PPC64',
    'elf.descriptions._DESCR_RELOC_TYPE_S390X', 'elf.descriptions._DESCR_D_TAG', 'elf.descriptions._DESCR_RELOC_TYPE_LOONGARCH',
    'elf.descriptions._DESCR_RELOC_TYPE_PPC', 'dwarf.enums.DW_FORM_raw2name', 'dwarf_expr.DW_OP_opcode2name', 'callframe._OPCODE_NAME_MAP',
]
