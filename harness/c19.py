"""C19 - opening arbitrary bytes fails only with ELFError; header enumeration terminates."""
from symx.api import H, ReadBudgetExceeded, AllocBudgetExceeded, StepBudgetExceeded
from spec import enc
from spec import elf_layout as L
from harness.elfkit import Image

PROPERTY = 'C19'
ASSUMPTIONS = [
    'the stream is an in-memory binary stream with the documented io.BytesIO failure behaviour: seek(n) raises ValueError for n < 0 and OverflowError for n >= 2^63, read past the end returns a short result',
    'h19_1: EVERY byte of the image is symbolic (sizes at every boundary of the header and of the first table entry); for images larger than the header the magic is fixed so that the paths are spent behind the identification',
    'h19_2 quick tier: offset-valued fields range over every value beyond the end of the file (in-file positions are enumerated in the thorough tier); all other fields over all values',
    'h19_2: "time bounded by a small multiple of the file size" is measured as the number of stream reads plus engine decisions of one battery run: at most 16 x file size + 2048',
]
STUBS = ['SymStream (io.BytesIO incl. seek/read failure contract)', 'SxPacker (struct.Struct)']
OUTSIDE = ['random multi-field corruptions beyond pairs', 'seed files other than the two built here (about 1.5 KiB with 8 dynamic entries; about 8 KiB with 392, with and without section headers)', 'wall-clock time and allocator peaks (loop iterations and read counts are bounded instead)',
           'exception TYPE of the enumeration battery (the statement only asks that it terminates)']


# ------------------------------------------------------------------ H19.1 constructor on arbitrary bytes
def h_ctor(ctx):
    cfg = ctx.cfg
    n = cfg['n']
    EF = ctx.lib('elf.elffile')
    EXC = ctx.lib('common.exceptions')
    cells = ctx.bytes('b', n)
    fix = cfg.get('fix', {})
    for i, v in fix.items():
        cells[int(i)] = v             # pinned bytes are concrete cells (not symbols constrained to a value)
    for i, (m, v) in cfg.get('masks', {}).items():
        ctx.assume(cells[int(i)] & m == v)
    st = ctx.stream(cells)
    try:
        elf = EF.ELFFile(st)
    except EXC.ELFError as e:
        ctx.outcome('ELFError')
        ctx.check('ctor/raises-only-ELFError', True)
        return
    ctx.outcome('opened')
    ctx.check('ctor/opened', elf.elfclass in (32, 64))


# ------------------------------------------------------------------ H19.3 the other way to open a file
def h_load_from_path(ctx):
    """ELFFile.load_from_path on a file holding the first `cut` bytes of a seed (ground instances: the bytes come from a real file, so
    nothing is symbolic here; the stream is whatever kind of object the library chooses to open)"""
    import os
    import tempfile
    cfg = ctx.cfg
    EF = ctx.lib('elf.elffile')
    EXC = ctx.lib('common.exceptions')
    data, where = _seed(cfg['elfclass'], cfg['little'])
    cut = cfg['cut']
    d = tempfile.mkdtemp(prefix='symx-c19-')
    path = os.path.join(d, 'f.elf')
    elf = None
    try:
        with open(path, 'wb') as f:
            f.write(bytes(data[:cut] if cut is not None else data))
        try:
            elf = EF.ELFFile.load_from_path(path)
        except EXC.ELFError:
            ctx.outcome('ELFError')
            ctx.check('load_from_path/raises-only-ELFError', True)
            return
        ctx.outcome('opened')
        ctx.check('load_from_path/opened', elf.elfclass == cfg['elfclass'])
        steps = _battery(ctx, elf)
        ctx.check('load_from_path/battery-terminates', len(steps) > 0)
    finally:
        try:
            if elf is not None:
                elf.close()
        except Exception:
            pass
        for fn in os.listdir(d):
            os.unlink(os.path.join(d, fn))
        os.rmdir(d)


# ------------------------------------------------------------------ H19.2 termination of the enumeration battery
def _seed(cls, little, needed=0, stripped=False, nodynsec=False):
    """small well-formed shared object with sections, segments, symbols, dynamic table, notes and both hash tables"""
    img = Image(cls, little, machine=62 if cls == 64 else 3, e_type=3)
    w = lambda v: enc.enc_int(v, 4, little)
    dynstr = [0] + [ord(c) for c in 'libc.so.6\0f\0gg\0']
    stroff = img.blob(dynstr)
    symsz = L.sizeof('SYM', cls)
    names = [0, 11, 13]
    symoff = img.blob(sum([L.encode('SYM', cls, little, dict(st_name=names[i], st_value=0x100 + i, st_info=0x12, st_shndx=1 if i else 0)) for i in range(3)], []), align=8)
    hashoff = img.blob(w(1) + w(3) + w(2) + w(0) + w(0) + w(1), align=8)
    gnuoff = img.blob(w(1) + w(1) + w(1) + w(0) + [0xff] * (cls // 8) + w(1) + w(0x1234 & ~1) + w(0x5678 | 1), align=8)
    note = w(4) + w(4) + w(3) + [0x47, 0x4e, 0x55, 0] + [1, 2, 3, 4] + w(0) + w(0) + w(7)
    # a GNU property note (words 8..): one x86 feature property, padded to the class alignment
    prop = w(0xc0000002) + w(4) + w(3) + ([0] * 4 if cls == 64 else [])
    note += w(4) + w(len(prop)) + w(5) + [0x47, 0x4e, 0x55, 0] + prop
    noteoff = img.blob(note, align=4)
    # version records (requirement with one auxiliary, definition with one auxiliary, one version index per dynamic symbol)
    verneed = L.encode('VERNEED', cls, little, dict(vn_version=1, vn_cnt=1, vn_file=1, vn_aux=16, vn_next=0)) + L.encode('VERNAUX', cls, little, dict(vna_hash=0x0d696914, vna_other=2, vna_name=11))
    verdef = L.encode('VERDEF', cls, little, dict(vd_version=1, vd_flags=1, vd_ndx=1, vd_cnt=1, vd_hash=0x66, vd_aux=20, vd_next=0)) + L.encode('VERDAUX', cls, little, dict(vda_name=13))
    vnoff = img.blob(verneed, align=4)
    vdoff = img.blob(verdef, align=4)
    vsoff = img.blob(enc.enc_int(0, 2, little) + enc.enc_int(2, 2, little) + enc.enc_int(1, 2, little), align=2)
    dynsz = L.sizeof('DYN', cls)
    tags = [(1, 1)] * (1 + needed) + [(5, stroff), (10, len(dynstr)), (6, symoff), (11, symsz), (4, hashoff), (0x6ffffef5, gnuoff), (0, 0)]
    dynoff = img.blob(sum([L.encode('DYN', cls, little, dict(d_tag=t, d_val=v)) for t, v in tags], []), align=8)
    size_guess = img.here() + 1024
    img.segment(p_type=1, p_offset=0, p_vaddr=0, p_paddr=0, p_filesz=size_guess, p_memsz=size_guess, p_flags=5, p_align=0x1000)
    img.segment(p_type=2, p_offset=dynoff, p_vaddr=dynoff, p_paddr=dynoff, p_filesz=len(tags) * dynsz, p_memsz=len(tags) * dynsz, p_flags=6, p_align=8)
    img.segment(p_type=4, p_offset=noteoff, p_vaddr=noteoff, p_paddr=noteoff, p_filesz=len(note), p_memsz=len(note), p_flags=4, p_align=4)
    if stripped:
        # no section header table at all (sstrip / strip --strip-section-headers): everything is found through the program headers
        data = img.build()
        return data, dict(shoff=0, phoff=img.phoff, shent=img.shent, phent=img.phent, dyn=dynoff, sym=symoff, hash=hashoff, gnu=gnuoff, note=noteoff, verneed=vnoff, verdef=vdoff)
    img.section('', sh_type=0)
    img.section('.dynstr', sh_type=3, sh_offset=stroff, sh_size=len(dynstr), sh_flags=2)                                   # 1
    img.section('.dynsym', sh_type=11, sh_offset=symoff, sh_size=3 * symsz, sh_entsize=symsz, sh_link=1, sh_info=1)          # 2
    img.section('.hash', sh_type=5, sh_offset=hashoff, sh_size=24, sh_link=2, sh_entsize=4)                                  # 3
    img.section('.gnu.hash', sh_type=0x6ffffff6, sh_offset=gnuoff, sh_size=28 + cls // 8, sh_link=2)                         # 4
    img.section('.note.x', sh_type=7, sh_offset=noteoff, sh_size=len(note))                                                  # 5
    # (nodynsec: the header table does not describe the dynamic array - legal; the dynamic segment then finds no section of its own)
    img.section('.dynamic', sh_type=1 if nodynsec else 6, sh_offset=dynoff, sh_size=len(tags) * dynsz, sh_entsize=dynsz, sh_link=1)             # 6
    img.add_shstrtab()                                                                                                       # 7
    # a no-bits section with a (legally) huge size: it occupies no file space, so nothing may allocate its size because of a
    # corrupted index or link that designates it
    img.section('', sh_name=0, sh_type=8, sh_flags=3, sh_offset=noteoff, sh_size=0x8000000, sh_addr=0x200000)                # 8
    img.section('', sh_name=0, sh_type=0x6ffffffe, sh_flags=2, sh_offset=vnoff, sh_size=len(verneed), sh_link=1, sh_info=1)                # 9
    img.section('', sh_name=0, sh_type=0x6ffffffd, sh_flags=2, sh_offset=vdoff, sh_size=len(verdef), sh_link=1, sh_info=1)                 # 10
    img.section('', sh_name=0, sh_type=0x6fffffff, sh_flags=2, sh_offset=vsoff, sh_size=6, sh_link=2, sh_entsize=2)                        # 11
    # (the nodynsec variant also pads its section header entries - e_shentsize larger than the structure is legal -, so that no entry of a
    # claimed, longer table straddles the end of the file; some bytes follow the table, as signature blocks or appended data do)
    data = img.build(shentsize=L.sizeof('SHDR', cls) + 64, tail=L.sizeof('SHDR', cls) + 6) if nodynsec else img.build()
    where = dict(shoff=img.shoff, phoff=img.phoff, shent=img.shent, phent=img.phent, dyn=dynoff, sym=symoff, hash=hashoff, gnu=gnuoff, note=noteoff, verneed=vnoff, verdef=vdoff)
    return data, where


def _field_pos(cls, where, spec):
    """byte range of one field: spec = (struct, index, field)"""
    st, idx, field = spec
    if st == 'EHDR':
        off, size, _ = L.offsets('EHDR', cls)[field]
        return 16 + off, size
    if st == 'SHDR':
        off, size, _ = L.offsets('SHDR', cls)[field]
        return where['shoff'] + idx * where['shent'] + off, size
    if st == 'PHDR':
        off, size, _ = L.offsets('PHDR', cls)[field]
        return where['phoff'] + idx * where['phent'] + off, size
    if st == 'DYN':
        off, size, _ = L.offsets('DYN', cls)[field]
        return where['dyn'] + idx * L.sizeof('DYN', cls) + off, size
    if st == 'SYM':
        off, size, _ = L.offsets('SYM', cls)[field]
        return where['sym'] + idx * L.sizeof('SYM', cls) + off, size
    if st == 'WORD':          # raw 32-bit word inside hash / gnu hash / note
        return where[field] + 4 * idx, 4
    raise ValueError(spec)


def _battery(ctx, elf):
    """the enumeration battery of the statement; every step may raise - it only has to terminate"""
    steps = []

    def run(name, f):
        try:
            f()
            steps.append((name, 'ok'))
        except Exception as e:
            steps.append((name, type(e).__name__))
    run('header', lambda: [elf.header[k] for k in ('e_type', 'e_machine', 'e_shnum', 'e_phnum')])
    run('num_sections', lambda: elf.num_sections())
    secs = []
    run('sections', lambda: secs.extend(elf.iter_sections()))
    run('num_segments', lambda: elf.num_segments())
    segs = []
    # (building a segment object may walk the section headers - the dynamic segment looks for its section: a walk over a claimed count
    # that skips unreadable headers neither reads nor allocates, so the segment enumeration runs under the line budget as well)
    ctx.steps_begin(300000 + 2000 * elf.stream_len)
    try:
        run('segments', lambda: segs.extend(elf.iter_segments()))
    finally:
        ctx.steps_end()
    # the filtered enumerations and the presence questions built on them.  Their time is measured in source lines executed inside
    # the library: a loop over a claimed count that neither reads nor allocates (e.g. 2^64 skipped entries) is cut by this budget
    ctx.steps_begin(300000 + 2000 * elf.stream_len)
    try:
        run('sections-of-type', lambda: list(elf.iter_sections(type='SHT_NOTE')))
        run('segments-of-type', lambda: list(elf.iter_segments(type='PT_LOAD')))
        run('has_dwarf_info', lambda: elf.has_dwarf_info())
        run('has_ehabi_info', lambda: elf.has_ehabi_info())
        run('section-by-name', lambda: elf.get_section_by_name('.no-such-section'))
    finally:
        ctx.steps_end()
    for s in secs[:12]:
        t = type(s).__name__
        if t == 'SymbolTableSection':
            run('num_symbols', lambda s=s: s.num_symbols())
        elif t == 'DynamicSection':
            run('dynamic-tags', lambda s=s: list(s.iter_tags()))
            run('num_tags', lambda s=s: s.num_tags())
        elif t == 'NoteSection':
            run('notes', lambda s=s: list(s.iter_notes()))
        elif t in ('ELFHashSection', 'GNUHashSection'):
            run('hash-count', lambda s=s: s.get_number_of_symbols())
    for s in segs[:8]:
        t = type(s).__name__
        if t == 'DynamicSegment':
            run('segment-tags', lambda s=s: list(s.iter_tags()))
            run('segment-num_symbols', lambda s=s: s.num_symbols())
        elif t == 'NoteSegment':
            run('segment-notes', lambda s=s: list(s.iter_notes()))
    return steps


class _Count:
    """read counter around a stream (concrete replay)"""
    def __init__(self, st, budget=None):
        self._st = st
        self.reads = 0
        self.read_budget = budget

    def read(self, *a):
        self.reads += 1
        if self.read_budget is not None and self.reads > self.read_budget:
            raise ReadBudgetExceeded(self.reads)
        return self._st.read(*a)

    def __getattr__(self, n):
        return getattr(self._st, n)


def h_battery(ctx):
    cfg = ctx.cfg
    cls, little = cfg['elfclass'], cfg['little']
    EF = ctx.lib('elf.elffile')
    EXC = ctx.lib('common.exceptions')
    ctx.loose_text(True)
    data, where = _seed(cls, little, cfg.get('needed', 0), cfg.get('stripped', False), cfg.get('nodynsec', False))
    data = list(data)
    trunc = cfg.get('truncate')
    for k, spec in enumerate(cfg.get('fields', [])):
        pos, size = _field_pos(cls, where, tuple(spec))
        v = ctx.uint('f%d' % k, 8 * size)
        rng = cfg.get('range') if tuple(spec)[2] in OFFSET_FIELDS else None
        if rng == 'beyond':
            ctx.assume(v > len(data))             # every value that designates a place beyond the end of the file
        elif rng == 'inside':
            ctx.assume(v <= len(data))            # every in-file position (one path per position)
        data[pos:pos + size] = enc.enc_int(v, size, little)
    if trunc is not None:
        data = data[:trunc]
    st = ctx.stream(data) if ctx.symbolic else _Count(ctx.stream(data))
    budget = 16 * len(data) + 2048
    # a loop that keeps reading (e.g. at end of file) is cut when it exceeds the budget and reported, instead of running into the
    # path budget of the engine (which would only be inconclusive)
    st.read_budget = budget
    # memory: no single allocation request (a sequence repeated n times, e.g. the zero block of a no-bits section) and, in the
    # concrete replay, no peak of traced allocations beyond 1 MiB + 64 x file size
    ctx.alloc_begin((1 << 20) + 64 * len(data))
    over = False
    slow = False
    try:
        try:
            elf = EF.ELFFile(st)
        except EXC.ELFError:
            ctx.outcome('ctor-ELFError')
            ctx.check('battery/ctor-raises-only-ELFError', True)
            return
        steps = _battery(ctx, elf)
    except ReadBudgetExceeded:
        ctx.outcome('read-budget-exceeded')
        ctx.check('battery/reads-bounded-by-file-size', False)
        return
    except AllocBudgetExceeded:
        over = True
    except StepBudgetExceeded:
        slow = True
    finally:
        over = ctx.alloc_end() or over
    if slow:
        ctx.outcome('step-budget-exceeded')
        ctx.check('battery/steps-bounded-by-file-size', False)
        return
    if over:
        ctx.outcome('allocation-exceeded')
        ctx.check('battery/allocation-bounded-by-file-size', False)
        return
    ctx.outcome('terminated')
    ctx.check('battery/reads-bounded-by-file-size', st.reads <= budget)


# ------------------------------------------------------------------ instances
def _ctor_instances(tier):
    out = []
    magic = {0: 0x7f, 1: 0x45, 2: 0x4c, 3: 0x46}
    # everything symbolic: sizes at every boundary of identification
    for n in (0, 1, 3, 4, 5, 6):
        out.append(dict(n=n))
    # behind the identification: one instance per class x byte order
    for c in (1, 2):
        for d in (1, 2):
            hs = 52 if c == 1 else 64
            sh = 40 if c == 1 else 64
            fx = dict(magic)
            fx.update({4: c, 5: d})
            fx = {str(k): v for k, v in fx.items()}
            for n in (6, 15, 16):
                out.append(dict(n=n, fix=fx))
            # from the first complete header on, the enumerated fields whose decoding cannot raise (decided for all values by
            # C01/h1_1) are pinned, so that the paths are spent on offsets, sizes, counts, indices and the designated entry
            pins = dict(fx)
            le = (d == 1)

            def put(off, val, size):
                for i, b in enumerate(enc.enc_int(val, size, le)):
                    pins[str(off + i)] = b
            put(16, 2, 2); put(18, 62 if c == 2 else 3, 2); put(20, 1, 4)
            pins['6'] = 1; pins['7'] = 0
            # e_shentsize x e_shstrndx is a product of two symbols (slow, and it multiplies the paths): the entry size is
            # enumerated over its boundary values here and left symbolic only in the thorough tier
            ent_off = 46 if c == 1 else 58
            for ent in (0, sh - 1, sh, sh + 8, 0xffff):
                p2 = dict(pins)
                for i, b in enumerate(enc.enc_int(ent, 2, le)):
                    p2[str(ent_off + i)] = b
                for n in ((hs,) if tier == 'quick' else (hs, hs + sh)):
                    out.append(dict(n=n, fix=p2))
            out.append(dict(n=hs - 1, fix=pins))
            if tier == 'thorough':
                for n in (hs, hs + sh):
                    out.append(dict(n=n, fix=pins))
    return out


FIELDS = [('EHDR', 0, f) for f in ('e_shoff', 'e_phoff', 'e_shnum', 'e_phnum', 'e_shentsize', 'e_phentsize', 'e_shstrndx', 'e_type', 'e_machine')] + \
         [('SHDR', i, f) for i in (0, 2, 5, 6, 7) for f in ('sh_offset', 'sh_size', 'sh_link', 'sh_entsize', 'sh_type', 'sh_name', 'sh_flags', 'sh_info')] + \
         [('PHDR', i, f) for i in (0, 1, 2) for f in ('p_offset', 'p_filesz', 'p_type', 'p_vaddr')] + \
         [('DYN', i, f) for i in (1, 3, 5, 7) for f in ('d_tag', 'd_val')] + \
         [('SYM', 1, 'st_name'), ('SYM', 2, 'st_shndx')] + \
         [('WORD', i, 'hash') for i in (0, 1, 2)] + [('WORD', i, 'gnu') for i in (0, 1, 2, 3)] + [('WORD', i, 'note') for i in (0, 1, 5, 6, 9, 12, 13)] + \
         [('SHDR', i, f) for i in (9, 10, 11) for f in ('sh_offset', 'sh_size', 'sh_link', 'sh_info', 'sh_entsize')] + \
         [('WORD', i, 'verneed') for i in (0, 2, 3, 7)] + [('WORD', i, 'verdef') for i in (1, 3, 4, 6)]


OFFSET_FIELDS = ('e_shoff', 'e_phoff', 'sh_offset', 'p_offset', 'd_val', 'sh_name', 'st_name')
QUICK_FIELDS = [f for f in FIELDS if f[2] in ('e_shoff', 'e_phoff', 'e_shnum', 'e_phnum', 'e_shentsize', 'e_phentsize', 'e_shstrndx', 'sh_size', 'sh_entsize', 'sh_link', 'sh_offset',
                                             'p_offset', 'p_filesz', 'd_tag', 'd_val', 'hash', 'gnu', 'note', 'sh_info', 'verneed', 'verdef') and not (f[0] == 'SHDR' and f[1] in (5,) and f[2] == 'sh_link') and f != ('WORD', 9, 'note')]      # (the size of the property note: ~1200 paths, thorough tier only)


BIG = 384        # dynamic entries of the long-table seeds


def _battery_instances(tier):
    out = []
    envs = [(64, True), (32, False)]
    for cls, little in envs:
        out.append(dict(elfclass=cls, little=little, fields=[]))
        for f in (FIELDS if tier == 'thorough' else QUICK_FIELDS):
            if f[2] in OFFSET_FIELDS:
                # offsets: all values beyond the end of the file in one instance; every in-file position (one path each) in the thorough tier
                out.append(dict(elfclass=cls, little=little, fields=[list(f)], range='beyond'))
                if tier == 'thorough':
                    out.append(dict(elfclass=cls, little=little, fields=[list(f)], range='inside'))
            else:
                out.append(dict(elfclass=cls, little=little, fields=[list(f)]))
        pairs = [(('EHDR', 0, 'e_shnum'), ('SHDR', 0, 'sh_size')), (('EHDR', 0, 'e_shoff'), ('EHDR', 0, 'e_shentsize')), (('SHDR', 2, 'sh_size'), ('SHDR', 2, 'sh_entsize')),
                 (('PHDR', 2, 'p_offset'), ('PHDR', 2, 'p_filesz')), (('WORD', 0, 'note'), ('WORD', 1, 'note')), (('EHDR', 0, 'e_phnum'), ('SHDR', 0, 'sh_info')), (('SHDR', 7, 'sh_flags'), ('SHDR', 7, 'sh_offset')),
                 (('EHDR', 0, 'e_phentsize'), ('EHDR', 0, 'e_phnum')), (('EHDR', 0, 'e_shentsize'), ('EHDR', 0, 'e_shnum'))]
        for a, b in pairs if tier == 'thorough' else [pairs[0], pairs[2], pairs[7], pairs[8]]:      # stride x count of both header tables also in the quick tier
            out.append(dict(elfclass=cls, little=little, fields=[list(a), list(b)]))
        out.append(dict(elfclass=cls, little=little, fields=[list(pairs[6][0]), list(pairs[6][1])], range='beyond'))
        # the same count pairs on a file whose header table does not describe the dynamic array
        out.append(dict(elfclass=cls, little=little, fields=[list(pairs[0][0]), list(pairs[0][1])], nodynsec=True))
        out.append(dict(elfclass=cls, little=little, fields=[], nodynsec=True))
        # long tables (a cost that is quadratic in the number of entries only shows with many entries), with and without section headers
        for stripped in (True, False):
            out.append(dict(elfclass=cls, little=little, fields=[], needed=BIG, stripped=stripped))
            out.append(dict(elfclass=cls, little=little, fields=[['DYN', BIG // 2, 'd_tag']], needed=BIG, stripped=stripped))
            out.append(dict(elfclass=cls, little=little, fields=[['DYN', BIG + 1, 'd_val']], needed=BIG, stripped=stripped, range='beyond'))
        data, where = _seed(cls, little)
        cuts = sorted({0, 1, 16, 51, 52, 63, 64, where['phoff'], where['phoff'] + 1, where['shoff'] - 1, where['shoff'], where['shoff'] + where['shent'], where['dyn'] + 4, where['note'] + 13,
                       len(data) - 1})
        for t in cuts:
            out.append(dict(elfclass=cls, little=little, fields=[], truncate=t))
    return out


TIER_PARAMS = {'quick': {'conc_cap': 400, 'max_decisions': 200000, 'deadline_s': 900}, 'thorough': {'conc_cap': 800, 'max_decisions': 400000, 'deadline_s': 5400}}      # (decisions: above what the read budget of 16 x size + 2048 reads can cause, so that an endless read loop ends in the read budget - a violation - not in the engine limit)

HARNESSES = [
    H('h19_2_battery', h_battery, _battery_instances, decoy=-1, expect=('terminated', 'ctor-ELFError'),
      desc='seed shared objects (sections, segments, symbols, dynamic table, notes, SysV and GNU hash) with one or two fields replaced by UNCONSTRAINED symbolic values (every count, size, offset, '
           'link, entry size, type of the file header, section / program headers, dynamic entries, hash and note words) or truncated at every table boundary: the enumeration battery of the '
           'statement terminates on every path within 16 x file size + 2048 stream reads (paths longer than the decision budget are reported inconclusive, never as success)'),
    H('h19_3_load_from_path', h_load_from_path,
      lambda tier: [dict(elfclass=c, little=l, cut=k) for c, l in ((64, True), (32, False)) for k in (0, 1, 3, 4, 5, 6, 15, 16, 17, 23, 24, 51, 52, 53, 63, 64, 65, 120, 500, None)],
      expect=('ELFError', 'opened'),
      desc='ELFFile.load_from_path on files holding a prefix of the seed (empty file included): ELFError or an object on which the battery terminates (ground instances)'),
    H('h19_1_ctor', h_ctor, _ctor_instances, decoy=-1, expect=('ELFError', 'opened'),
      desc='ELFFile(stream) on images whose EVERY byte is symbolic (n = 0..6 fully free; n up to header + one table entry with only magic/class/data pinned): every path of the constructor ends by '
           'returning or by an exception that is an ELFError; the stream model raises ValueError / OverflowError on absurd seeks like io.BytesIO does'),
]
