"""C20 - ARM/RISC-V build attributes and ARM unwind tables are decoded exactly."""
from symx.api import H
from spec import enc, ehabi
from harness.elfkit import stream_length, elf_object, shdr, phdr, open_elf

PROPERTY = 'C20'
ASSUMPTIONS = [
    'attribute sections are generated from skeletons (subsection / sub-subsection / attribute structure and LEB128 byte counts fixed per instance); tag numbers within a kind class, values, strings and number lists are symbolic',
    'unwind byte-code arrays end on an instruction boundary (arrays that stop inside a multi-byte instruction are ill-formed and excluded)',
]
STUBS = ['SymStream (io.BytesIO)', 'SxPacker (struct.Struct)', 'SymText (%-formatting of symbolic integers keeps the number as a term)']
OUTSIDE = ['vendor tags unknown to the library (rejected by its Enum)', 'byte-code arrays longer than 4 (quick) / 5 (thorough) bytes as fully symbolic input',
           'exidx sections with more than 2 entries', 'non-ASCII attribute strings']


# ------------------------------------------------------------------ H20.3 prel31
def h_prel31(ctx):
    EI = ctx.lib('ehabi.ehabiinfo')
    a = ctx.uint('address', 32)
    p = ctx.uint('place', 32)
    ctx.check_eq('prel31', EI.arm_expand_prel31(a, p), ehabi.prel31(a, p))
    ctx.outcome('ok')


# ------------------------------------------------------------------ H20.4 byte-code
def h_bytecode(ctx):
    n = ctx.cfg['n']
    D = ctx.lib('ehabi.decoder')
    bs = ctx.bytes('b', n)
    for i, v in enumerate(ctx.cfg.get('fixed', [])):
        if v is not None:
            ctx.assume(bs[i] == v)
    for i, rs in ctx.cfg.get('ranges', {}).items():
        ctx.assume(ctx.lor(*[ctx.land(bs[int(i)] >= lo, bs[int(i)] <= hi) for lo, hi in rs]))
    for i, (m, v) in ctx.cfg.get('masks', {}).items():
        ctx.assume(bs[int(i)] & m == v)
    want = ehabi.disasm(ctx, bs)
    if want is None:
        ctx.assume(False)          # ill-formed: stops inside an instruction
    dec = D.EHABIBytecodeDecoder(list(bs))
    got = [(list(m.bytecode), m.mnemonic) for m in dec.mnemonic_array]
    ctx.outcome('ok')
    ctx.check_eq('segmentation', [len(g[0]) for g in got], [len(w[0]) for w in want])
    if len(got) != len(want):
        return
    for k, (g, w) in enumerate(zip(got, want)):
        ctx.check_eq('bytes', g[0], w[0])
        ctx.check_eq('mnemonic/%s' % _klass(w[1]), g[1], w[1])


def _klass(t):
    t = str(t)
    for key in ('vsp = vsp +', 'vsp = vsp -', 'vsp = r', 'refuse', 'reserved', 'finish', 'spare', 'pop {d', 'pop {wR', 'pop {wCGR', 'pop {'):
        if t.startswith(key):
            return key.replace(' ', '_')
    return 'other'


# ------------------------------------------------------------------ H20.2 index entries
class _Sec:
    def __init__(self, stream, off, size):
        self.stream = stream
        self.name = '.ARM.exidx'
        self._h = shdr(sh_type='SHT_ARM_EXIDX', sh_flags=0x82, sh_offset=off, sh_size=size, sh_addralign=4)

    def __getitem__(self, k):
        return self._h[k]


def h_index_entry(ctx):
    cfg = ctx.cfg
    little = cfg['little']
    off = cfg['sh_offset']
    nent = cfg['entries']
    n = cfg['n']
    W = cfg['table_words']
    EI = ctx.lib('ehabi.ehabiinfo')
    EXC = ctx.lib('common.exceptions')
    words = [ctx.uint('w%d' % i, 32) for i in range(2 * nent + W)]
    if cfg.get('concrete'):
        words = list(cfg['concrete'])       # ground instance: a table whose entries have identical raw words (a run of 8-byte functions)
    for i, v in cfg.get('fix', {}).items():
        ctx.assume(words[int(i)] & v[0] == v[1])
    data = [0] * off
    for w in words:
        data += enc.enc_int(w, 4, little)
    size = len(data)
    st = ctx.stream(data)
    info = EI.EHABIInfo(_Sec(st, off, 8 * nent), little)
    ctx.check_eq('num_entry', info.num_entry(), nent)
    place = off + 8 * n

    def read_word(o):
        # table words may be anywhere in the image (4 bytes inside it)
        if ctx.fork(ctx.lor(o < 0, o + 4 > size)):
            return None
        o = ctx.concretize(o)
        return enc.dec_uint(data[o:o + 4], little)
    want = ehabi.index_entry(ctx, words[2 * n], words[2 * n + 1], place, read_word, max_more=cfg.get('max_more', 2))
    if want is None:
        ctx.assume(False)      # points outside the image: ill-formed
    for k in cfg.get('history', []):
        # other entries of the same table fetched before, from the same object: both words are relative to the entry's own place
        try:
            info.get_entry(k)
        except Exception:
            pass
    e = info.get_entry(n)
    kind = want['kind']
    ctx.outcome(kind)
    ctx.check_eq('%s/corrupt' % kind, e.corrupt, kind == 'corrupt')
    if kind == 'corrupt':
        return
    ctx.check_eq('%s/function_offset' % kind, e.function_offset, want['function_offset'])
    ctx.check_eq('%s/unwindable' % kind, e.unwindable, kind != 'cantunwind')
    if kind == 'cantunwind':
        ctx.check_eq('cantunwind/bytecode', e.bytecode_array, None)
        return
    ctx.check_eq('%s/personality' % kind, e.personality, want['personality'])
    if kind == 'generic':
        ctx.check_eq('generic/bytecode', e.bytecode_array, None)
        return
    ctx.check_eq('compact/bytecode', list(e.bytecode_array), want['bytecode'])
    if want['eh_table_offset'] is not None:
        ctx.check_eq('compact/eh_table_offset', e.eh_table_offset, want['eh_table_offset'])


# ------------------------------------------------------------------ H20.1 attributes
ARM_KIND = {1: 'file', 2: 'scoped', 3: 'scoped', 4: 'ntbs', 5: 'ntbs', 67: 'ntbs', 32: 'compat', 65: 'also'}
ARM_ULEB = [6, 7, 8, 9, 10, 11, 12, 13, 14, 15, 16, 17, 18, 19, 20, 21, 22, 23, 24, 25, 26, 27, 28, 29, 30, 31, 34, 36, 38, 42, 44, 46, 48,
            50, 52, 64, 66, 68, 70, 72, 74, 76]
RV_KIND = {1: 'file', 2: 'scoped', 3: 'scoped', 5: 'ntbs'}
RV_ULEB = [4, 6, 8, 10, 12, 14, 16]


def _gen_attr(ctx, arch, spec, nm, little):
    """spec: dict(kind=..., ...) -> (bytes, expected (tagnum, value, extra))"""
    kind = spec['kind']
    kinds = ARM_KIND if arch == 'arm' else RV_KIND
    ulebs = ARM_ULEB if arch == 'arm' else RV_ULEB
    if kind == 'uleb':
        tag = ctx.uint(nm + '.tag', 7)
        ctx.assume(ctx.lor(*[tag == t for t in ulebs]))
        n = spec.get('leb', 1)
        v = ctx.uint(nm + '.v', 7 * n)
        return enc.uleb_enc(tag, spec.get('tagleb', 1)) + enc.uleb_enc(v, n), (tag, v, None)
    if kind == 'ntbs':
        cands = [t for t, k in kinds.items() if k == 'ntbs']
        tag = ctx.uint(nm + '.tag', 7)
        ctx.assume(ctx.lor(*[tag == t for t in cands]))
        chars = _ascii(ctx, nm + '.s', spec.get('len', 0))
        return enc.uleb_enc(tag, spec.get('tagleb', 1)) + chars + [0], (tag, chars, None)
    if kind == 'compat':
        n = spec.get('leb', 1)
        v = ctx.uint(nm + '.v', 7 * n)
        chars = _ascii(ctx, nm + '.s', spec.get('len', 0))
        return [32] + enc.uleb_enc(v, n) + chars + [0], (32, v, chars)
    if kind == 'also':
        b, inner = _gen_attr(ctx, arch, spec['inner'], nm + '.in', little)
        if spec['inner']['kind'] in ('ntbs',):
            return [65] + b, (65, inner, None)
        return [65] + b + [0], (65, inner, None)
    raise ValueError(kind)


def _ascii(ctx, nm, n):
    cells = ctx.bytes(nm, n)
    for c in cells:
        ctx.assume(ctx.land(c >= 1, c < 0x80))
    return cells


def _gen_subsub(ctx, arch, spec, nm, little):
    """sub-subsection: tag (file/section/symbol), 4-byte length incl. header, [number list], attributes"""
    scope = spec['scope']
    body = []
    nums = []
    if scope != 1:
        for i, n in enumerate(spec.get('numbers', [])):
            v = ctx.uint('%s.n%d' % (nm, i), 7 * n)
            ctx.assume(v != 0)
            nums.append(v)
            body += enc.uleb_enc(v, n)
        body += [0]
    attrs = []
    for i, a in enumerate(spec['attrs']):
        b, want = _gen_attr(ctx, arch, a, '%s.a%d' % (nm, i), little)
        body += b
        attrs.append(want)
    # tags are ULEB128 numbers: a padded (non-minimal) encoding is as valid as the one-byte one
    stag = enc.uleb_enc(scope, spec.get('scopeleb', 1))
    length = len(stag) + 4 + len(body)
    return stag + enc.enc_int(length, 4, little) + body, dict(scope=scope, length=length, numbers=nums, attrs=attrs)


def _gen_section(ctx, arch, spec, little):
    out = [0x41]
    want = []
    for i, sub in enumerate(spec):
        vendor = list(sub['vendor'].encode('utf-8')) + [0]       # vendor names are UTF-8 text
        body = []
        subs = []
        for j, ss in enumerate(sub['subsubs']):
            b, w = _gen_subsub(ctx, arch, ss, 's%d.%d' % (i, j), little)
            body += b
            subs.append(w)
        length = 4 + len(vendor) + len(body)
        out += enc.enc_int(length, 4, little) + vendor + body
        want.append(dict(vendor=sub['vendor'], length=length, subsubs=subs))
    return out, want


class _Elf:
    def __init__(self, stream, structs, little):
        self.stream = stream
        self.stream_len = stream_length(stream)
        self.structs = structs
        self.little_endian = little
        self.elfclass = 32


def _tagnum(ctx, arch, tag):
    EN = ctx.lib('elf.enums')
    table = EN.ENUM_ATTR_TAG_ARM if arch == 'arm' else EN.ENUM_ATTR_TAG_RISCV

    def one(t):
        return table[t] if isinstance(t, str) else t
    alts = ctx.alternatives(tag)
    if len(alts) == 1:
        return one(alts[0][1])
    r = None
    for c, o in reversed(alts):
        r = one(o) if r is None else ctx.ite(c, one(o), r)
    return r


def _attr_view(ctx, arch, a):
    v = a.value
    if hasattr(v, 'tag') and hasattr(v, 'value'):
        v = _attr_view(ctx, arch, v)
    elif hasattr(v, 'encode'):               # str (or symbolic str): compare as code points
        v = list(v.encode('utf-8'))
    extra = a.extra
    if hasattr(extra, 'encode'):
        extra = list(extra.encode('utf-8'))
    return (_tagnum(ctx, arch, a.tag), v, extra)


def h_attributes(ctx):
    cfg = ctx.cfg
    arch, little, pad = cfg['arch'], cfg['little'], cfg.get('pad', 0)
    S = ctx.lib('elf.structs')
    SEC = ctx.lib('elf.sections')
    data, want = _gen_section(ctx, arch, cfg['spec'], little)
    image = [0xEE] * pad + data + [0xEE] * 3
    st = ctx.stream(image)
    hdr = shdr(sh_offset=pad, sh_size=len(data), sh_flags=0, sh_type='SHT_ARM_ATTRIBUTES', sh_addralign=1)
    cls = SEC.ARMAttributesSection if arch == 'arm' else SEC.RISCVAttributesSection
    sec = cls(hdr, '.attributes', elf_object(ctx, st, 32, little, 'EM_ARM' if arch == 'arm' else 'EM_RISCV'))
    subs = ctx.walk(lambda: sec.iter_subsections())
    ctx.outcome('ok')
    ctx.check_eq('subsections/count', len(subs), len(want))
    if len(subs) != len(want):
        return
    for i, (s, w) in enumerate(zip(subs, want)):
        ctx.check_eq('subsection/vendor', s['vendor_name'], w['vendor'])
        ctx.check_eq('subsection/length', s['length'], w['length'])
        sss = ctx.walk(lambda: s.iter_subsubsections())
        ctx.check_eq('subsubsections/count', len(sss), len(w['subsubs']))
        if len(sss) != len(w['subsubs']):
            return
        for j, (ss, ws) in enumerate(zip(sss, w['subsubs'])):
            ctx.check_eq('subsub/scope', _tagnum(ctx, arch, ss.header.tag), ws['scope'])
            ctx.check_eq('subsub/length', ss.header.value, ws['length'])
            if ws['scope'] != 1:
                ctx.check_eq('subsub/numbers', ss.header.extra, ws['numbers'])
            attrs = ctx.walk(lambda: ss.iter_attributes())
            ctx.check_eq('attributes/count', len(attrs), len(ws['attrs']))
            if len(attrs) != len(ws['attrs']):
                return
            for a, wa in zip(attrs, ws['attrs']):
                ctx.check_eq('attribute/%s' % cfg['label'], _attr_view(ctx, arch, a), wa)
    ctx.check_eq('num_subsections', sec.num_subsections, len(want))
    # the other entry points to the same data: list / count properties and the filtered iterations agree with the plain iteration
    ctx.check_eq('accessors/subsections', [x['vendor_name'] for x in sec.subsections], [w['vendor'] for w in want])
    for v in sorted({w['vendor'] for w in want} | {'no-such-vendor'}):
        ctx.check_eq('accessors/iter_subsections(vendor)', [x.offset for x in sec.iter_subsections(v)], [x.offset for x, w in zip(subs, want) if w['vendor'] == v])
    for s, w in zip(subs, want):
        ctx.check_eq('accessors/num_subsubsections', s.num_subsubsections, len(w['subsubs']))
        lst = s.subsubsections
        ctx.check_eq('accessors/subsubsections', [_tagnum(ctx, arch, x.header.tag) for x in lst], [ws['scope'] for ws in w['subsubs']])
        for scope_name, scope in (('TAG_FILE', 1), ('TAG_SECTION', 2), ('TAG_SYMBOL', 3)):
            ctx.check_eq('accessors/iter_subsubsections(scope)', [x.offset for x in s.iter_subsubsections(scope_name)],
                         [x.offset for x, ws in zip(lst, w['subsubs']) if ws['scope'] == scope])
        for ss, ws in zip(lst, w['subsubs']):
            ctx.check_eq('accessors/num_attributes', ss.num_attributes, len(ws['attrs']) + 1)
            al = ss.attributes
            ctx.check('accessors/attributes/header-first', len(al) == len(ws['attrs']) + 1 and al[0] is ss.header)
            ctx.check_eq('accessors/attributes', [_attr_view(ctx, arch, a) for a in al[1:]], list(ws['attrs']))


def h_file_entry_points(ctx):
    """ELFFile.has_ehabi_info / get_ehabi_infos and the EHABIInfo accessors on a generated ARM executable (the decoding itself is
    h20_2 / h20_4)"""
    from harness.elfkit import Image
    cfg = ctx.cfg
    little = cfg['little']
    EF = ctx.lib('elf.elffile')
    img = Image(32, little, machine=40, e_type=2)
    img.section('', sh_type=0)
    k = cfg['tables']
    offs = []
    for t in range(k):
        words = []
        for i in range(2):
            words += enc.enc_int(0x10 + 8 * i, 4, little) + enc.enc_int(0x80b0b0b0 if i else 1, 4, little)
        o = img.blob(words, align=4)
        offs.append(o)
        img.section('.ARM.exidx%s' % ('.text.f' if t else ''), sh_type=0x70000001, sh_offset=o, sh_size=16, sh_addr=0x8000 + o, sh_flags=0x82)
    o = img.blob([0])
    img.section('.text', sh_type=1, sh_offset=o, sh_size=1)
    img.add_shstrtab()
    elf = open_elf(ctx, img.build())
    ctx.outcome('ok')
    ctx.check_eq('file/has_ehabi_info', bool(elf.has_ehabi_info()), k > 0)
    infos = elf.get_ehabi_infos()
    if k == 0:
        ctx.check('file/get_ehabi_infos/none', infos is None)
        return
    ctx.check_eq('file/get_ehabi_infos/count', len(infos), k)
    for t, inf in enumerate(infos):
        ctx.check_eq('file/section_name', inf.section_name(), '.ARM.exidx%s' % ('.text.f' if t else ''))
        ctx.check_eq('file/section_offset', inf.section_offset(), offs[t])
        ctx.check_eq('file/num_entry', inf.num_entry(), 2)
        e0, e1 = inf.get_entry(0), inf.get_entry(1)
        ctx.check_eq('file/entry-kinds', [type(e0).__name__, type(e1).__name__], ['CannotUnwindEHABIEntry', 'EHABIEntry'])
        ctx.check_eq('file/function_offset', [e0.function_offset, e1.function_offset], [offs[t] + 0x10, offs[t] + 8 + 0x18])
        ctx.check_eq('file/bytecode', list(e1.bytecode_array), [0xb0, 0xb0, 0xb0])
        ctx.check_eq('file/mnemonics', [m.mnemonic for m in e1.mnmemonic_array()], ['finish'] * 3)


def _attr_specs(tier):
    base = [dict(kind='uleb', leb=1), dict(kind='uleb', leb=2), dict(kind='ntbs', len=0), dict(kind='ntbs', len=2)]
    arm = base + [dict(kind='compat', leb=1, len=1), dict(kind='also', inner=dict(kind='uleb', leb=1)), dict(kind='also', inner=dict(kind='ntbs', len=1))]
    if tier == 'thorough':
        arm += [dict(kind='uleb', leb=3), dict(kind='ntbs', len=3), dict(kind='compat', leb=2, len=0)]
    return arm, base


def _attr_instances(tier):
    arm, rv = _attr_specs(tier)
    out = []

    def ss(scope, attrs, numbers=()):
        return dict(scope=scope, attrs=attrs, numbers=list(numbers))
    for arch, specs in (('arm', arm), ('riscv', rv)):
        for little in (True, False):
            # single attribute of each kind
            for k, a in enumerate(specs):
                out.append(dict(arch=arch, little=little, label='single', pad=4, spec=[dict(vendor='aeabi', subsubs=[ss(1, [a])])]))
            u, s = specs[0], specs[3]
            out.append(dict(arch=arch, little=little, label='padded-tags', pad=4, spec=[dict(vendor='aeabi', subsubs=[ss(1, [dict(u, tagleb=2), dict(s, tagleb=3), u])])]))
            out.append(dict(arch=arch, little=little, label='padded-scope-tag', pad=4, spec=[dict(vendor='aeabi', subsubs=[dict(ss(1, [u]), scopeleb=2), dict(ss(2, [dict(s, tagleb=2)], [1]), scopeleb=3)])]))
            shapes = {
                'two-attrs': [dict(vendor='aeabi', subsubs=[ss(1, [u, s])])],
                'empty-file-scope': [dict(vendor='aeabi', subsubs=[ss(1, [])])],
                'section-scope': [dict(vendor='aeabi', subsubs=[ss(1, [u]), ss(2, [s], [1, 2])])],
                'symbol-scope': [dict(vendor='aeabi', subsubs=[ss(3, [u], [1]), ss(1, [u])])],
                'two-vendors': [dict(vendor='aeabi', subsubs=[ss(1, [u])]), dict(vendor='x', subsubs=[ss(1, [s])])],
                'three-vendors': [dict(vendor='aeabi', subsubs=[ss(1, [u])]), dict(vendor='vend', subsubs=[ss(1, [s, u])]), dict(vendor='', subsubs=[ss(1, [u])])],
                'three-subsubs': [dict(vendor='aeabi', subsubs=[ss(1, [u]), ss(2, [u, u], [1]), ss(3, [s], [2])])],
                # the number and order of vendor subsections is unconstrained: a vendor may occur more than once, scopes may repeat
                'repeated-vendor': [dict(vendor='aeabi', subsubs=[ss(1, [u])]), dict(vendor='gnu', subsubs=[ss(1, [s])]), dict(vendor='aeabi', subsubs=[ss(1, [s]), ss(1, [u])])],
                'repeated-scope': [dict(vendor='aeabi', subsubs=[ss(2, [u], [1]), ss(1, [s]), ss(2, [s], [2]), ss(1, [u])])],
                'non-ascii-vendor': [dict(vendor='Z\u00fcrich\u2122', subsubs=[ss(1, [u]), ss(2, [s], [1])]), dict(vendor='aeabi', subsubs=[ss(1, [s])])],
                '2x2': [dict(vendor='a', subsubs=[ss(1, [u]), ss(2, [s], [1])]), dict(vendor='bb', subsubs=[ss(2, [u], []), ss(1, [])])],
            }
            for label, spec in shapes.items():
                for pad in ((0, 8) if tier == 'thorough' else (4,)):
                    out.append(dict(arch=arch, little=little, label=label, pad=pad, spec=spec))
    return out


def _bytecode_instances(tier):
    """single instructions (every class of first byte, all operand values) after 0 or 1 preceding instruction and followed by
    `finish`; the decode loop keeps no state but the index, so exact consumption per instruction gives sequences by induction"""
    ONE = [(0x00, 0x7f), (0x90, 0xb0), (0xb4, 0xc5), (0xca, 0xff)]          # 1-byte instructions
    TWO = [(0xb1, 0xb1), (0xb3, 0xb3), (0xc6, 0xc9)]                        # 2-byte instructions
    out = [dict(n=0), dict(n=1)]
    for pre in ([], [0x01]):
        k = len(pre)
        for r in ONE:
            out.append(dict(n=k + 2, fixed=pre + [None, 0xb0], ranges={str(k): [r]}))
        for r in TWO:
            rg = {str(k): [r]}
            if tier == 'quick' and r != (0xb1, 0xb1):
                # start/count nibbles: count free, start in {0, 5, 15} (thorough: all 256 per opcode)
                rg[str(k + 1)] = [(0x00, 0x0f), (0x50, 0x5f), (0xf0, 0xff)]
            out.append(dict(n=k + 3, fixed=pre + [None, None, 0xb0], ranges=rg))
        # 0x8x: 12-bit register mask.  quick: mask bits 4..9 and 14,15 free (256 populations); thorough: all 4096
        if tier == 'quick':
            out.append(dict(n=k + 3, fixed=pre + [None, None, 0xb0], ranges={str(k): [(0x80, 0x8f)]}, masks={str(k): [0xfc, 0x80], str(k + 1): [0xc0, 0]}))
        else:
            out.append(dict(n=k + 3, fixed=pre + [None, None, 0xb0], ranges={str(k): [(0x80, 0x8f)]}))
        # 0xb2 + uleb128 operand of exactly m bytes (continuation bits fixed, the 7 payload bits of every byte symbolic)
        for m in (range(1, 7) if (tier == 'quick' and not pre) else (range(1, 4) if tier == 'quick' else range(1, 10))):
            mk = {str(k + 1 + j): [0x80, 0x80 if j < m - 1 else 0] for j in range(m)}
            out.append(dict(n=k + 1 + m + 1, fixed=pre + [0xb2] + [None] * m + [0xb0], masks=mk))
    if tier == 'thorough':
        out.append(dict(n=2, ranges={'0': [(0x00, 0x7f), (0x90, 0xff)]}))
        out.append(dict(n=3, ranges={'0': [(0x00, 0x7f), (0x90, 0xb0), (0xb4, 0xc5), (0xca, 0xff)], '1': [(0x00, 0x7f), (0x90, 0xff)]}))
    return out


def _index_instances(tier):
    out = []
    for little in (True, False):
        for off in (0, 16):
            # kinds that do not reach the table: all of word0/word1 symbolic
            out.append(dict(little=little, sh_offset=off, entries=1, n=0, table_words=0))
            # pointer into the table: word1 bit 31 clear; table words symbolic
            out.append(dict(little=little, sh_offset=off, entries=1, n=0, table_words=3, fix={'1': [0x80000000, 0]}))
        out.append(dict(little=little, sh_offset=8, entries=2, n=1, table_words=3, fix={'3': [0x80000000, 0]}))
        out.append(dict(little=little, sh_offset=8, entries=2, n=0, table_words=2, fix={'1': [0x80000000, 0]}))
        # identical raw words in consecutive entries: inline compact model, cannot-unwind, and pointers into the table
        for w1 in (0x80a8b0b0, 1, 0x18):
            for n in (1, 2):
                out.append(dict(little=little, sh_offset=0, entries=3, n=n, table_words=4, history=list(range(n)),
                                concrete=[0x100, w1] * 3 + [0x8001b0b0, 0x8002b0b0, 0x8003b0b0, 0x8004b0b0]))
    return out


TIER_PARAMS = {'quick': {'conc_cap': 300}, 'thorough': {'conc_cap': 600}}

HARNESSES = [
    H('h20_3_prel31', h_prel31, lambda tier: [dict()], expect=('ok',),
      desc='arm_expand_prel31 for all 2^32 x 2^32 (address, place): place + sign-extended 31-bit displacement (bit 30 = sign) mod 2^64'),
    H('h20_4_bytecode', h_bytecode, _bytecode_instances, expect=('ok',),
      desc='EHABIBytecodeDecoder on arrays of n symbolic bytes: segmentation into instructions (incl. uleb128 operand of 0xb2) and mnemonic '
           'text with numeric operands kept symbolic equal the IHI 0038 table 4 reference',
      bounds={'quick': 'all arrays of <= 3 bytes; 0xb2 + up to 3 operand bytes', 'thorough': 'all arrays of <= 4 bytes (first byte not 0x8x); 0xb2 + up to 5 bytes'}),
    H('h20_2_index_entry', h_index_entry, _index_instances, expect=('corrupt', 'cantunwind', 'compact', 'generic'),
      desc='EHABIInfo.get_entry with word0/word1 and table words symbolic: kind, function offset (prel31), personality, byte-code bytes in order, eh_table_offset',
      bounds={'all': '1-2 index entries, up to 3 table words, section offset 0/8/16, both byte orders'}),
    H('h20_5_file_entry_points', h_file_entry_points, lambda tier: [dict(little=l, tables=k) for l in (True, False) for k in (0, 1, 2)], expect=('ok',), decoy=-1,
      desc='ELFFile.has_ehabi_info / get_ehabi_infos over 0-2 exception index sections of a generated ARM executable; section name / offset / entry count accessors, mnemonic list (ground)'),
    H('h20_1_attributes', h_attributes, _attr_instances, decoy='all', expect=('ok',),
      desc='ARM/RISC-V attributes sections: 1-3 vendor subsections x 1-3 sub-subsections x 0-2 attributes of every kind (uleb, NTBS, compatibility, '
           'also-compatible-with, section/symbol number lists); tag within its kind class, values, strings, numbers symbolic',
      bounds={'all': 'uleb 1..2(3) bytes, strings 0..2(3) chars'}),
]
