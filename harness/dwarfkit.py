"""harness.dwarfkit - helpers shared by the DWARF harnesses: building a DWARFInfo over
(symbolic) section contents.  z3-free."""

SECTIONS = ('debug_info', 'debug_aranges', 'debug_abbrev', 'debug_frame', 'eh_frame', 'debug_str', 'debug_loc', 'debug_ranges',
            'debug_line', 'debug_pubtypes', 'debug_pubnames', 'debug_addr', 'debug_str_offsets', 'debug_line_str',
            'debug_loclists', 'debug_rnglists', 'debug_sup', 'gnu_debugaltlink', 'debug_types')


def mk_dwarfinfo(ctx, little, addr_size, machine='x64', addresses=None, merge_reads=False, **secs):
    """secs: section name -> list of byte values (int or symbolic).  Returns (DWARFInfo, {name: stream})"""
    DI = ctx.lib('dwarf.dwarfinfo')
    streams = {}
    kw = {}
    for name in SECTIONS:
        data = secs.get(name)
        if data is None:
            kw[name + '_sec'] = None
            continue
        st = ctx.stream(list(data), 0, merge_reads=merge_reads) if merge_reads else ctx.stream(list(data))
        streams[name] = st
        addr = (addresses or {}).get(name, 0)
        kw[name + '_sec'] = DI.DebugSectionDescriptor(stream=st, name='.' + name, global_offset=0, size=len(data), address=addr)
    cfg = DI.DwarfConfig(little_endian=little, machine_arch=machine, default_address_size=addr_size)
    return DI.DWARFInfo(config=cfg, **kw), streams
