"""harness.dwarfkit - helpers shared by the DWARF harnesses: building a DWARFInfo over
(symbolic) section contents.  z3-free."""

SECTIONS = ('debug_info', 'debug_aranges', 'debug_abbrev', 'debug_frame', 'eh_frame', 'debug_str', 'debug_loc', 'debug_ranges',
            'debug_line', 'debug_pubtypes', 'debug_pubnames', 'debug_addr', 'debug_str_offsets', 'debug_line_str',
            'debug_loclists', 'debug_rnglists', 'debug_sup', 'gnu_debugaltlink', 'debug_types')


def mk_dwarfinfo(ctx, little, addr_size, machine='x64', addresses=None, merge_reads=False, **secs):
    """secs: section name -> list of byte values (int or symbolic).  Returns (DWARFInfo, {name: stream})"""
    DI = ctx.lib('dwarf.dwarfinfo')
    streams = {}
    kw = {}
    for name in SECTIONS:
        data = secs.get(name)
        if data is None:
            kw[name + '_sec'] = None
            continue
        st = ctx.stream(list(data), 0, merge_reads=merge_reads) if merge_reads else ctx.stream(list(data))
        streams[name] = st
        addr = (addresses or {}).get(name, 0)
        # the descriptor name is documented as 'for descriptional purposes only': every section gets the same one, so nothing may be keyed by it
        kw[name + '_sec'] = DI.DebugSectionDescriptor(stream=st, name='section', global_offset=0, size=len(data), address=addr)
    cfg = DI.DwarfConfig(little_endian=little, machine_arch=machine, default_address_size=addr_size)
    return DI.DWARFInfo(config=cfg, **kw), streams


# ---------------------------------------------------------------------------- unit headers (DWARF 5 7.5.1)
from spec import enc as _enc

UT = {'compile': 1, 'type': 2, 'partial': 3, 'skeleton': 4, 'split_compile': 5, 'split_type': 6}


def unit_header(ver, fmt64, little, addr, abbrev_off=0, unit_type='compile', body_len=0, dwo_id=0, signature=0, type_offset=0, tu=False):
    """complete unit header (unit_length counts everything after the length field incl. body_len bytes of DIEs).
    Field arguments may be symbolic.  -> (bytes, header_size)"""
    offsz = 8 if fmt64 else 4
    h = _enc.enc_int(ver, 2, little)
    if tu:        # DWARF 4 .debug_types
        h += _enc.enc_int(abbrev_off, offsz, little) + [addr] + _enc.enc_int(signature, 8, little) + _enc.enc_int(type_offset, offsz, little)
    elif ver >= 5:
        h += [UT[unit_type], addr] + _enc.enc_int(abbrev_off, offsz, little)
        if unit_type in ('skeleton', 'split_compile'):
            h += _enc.enc_int(dwo_id, 8, little)
        elif unit_type in ('type', 'split_type'):
            h += _enc.enc_int(signature, 8, little) + _enc.enc_int(type_offset, offsz, little)
    else:
        h += _enc.enc_int(abbrev_off, offsz, little) + [addr]
    n = len(h) + body_len
    pre = ([0xff] * 4 + _enc.enc_int(n, 8, little)) if fmt64 else _enc.enc_int(n, 4, little)
    return pre + h, len(pre) + len(h)


def abbrev_table(decls):
    """decls: list of (code, tag, has_children, [(attr, form[, implicit_const_value])]) with small concrete numbers (1-2 byte ULEB)"""
    out = []
    for code, tag, ch, attrs in decls:
        out += _uleb(code) + _uleb(tag) + [1 if ch else 0]
        for a in attrs:
            out += _uleb(a[0]) + _uleb(a[1])
            if a[1] == 0x21:
                out += _sleb(a[2])
        out += [0, 0]
    return out + [0]


def _uleb(v):
    out = []
    while True:
        b = v & 0x7f
        v >>= 7
        if v:
            out.append(b | 0x80)
        else:
            out.append(b)
            return out


def _sleb(v):
    out = []
    while True:
        b = v & 0x7f
        v >>= 7
        if (v == 0 and not (b & 0x40)) or (v == -1 and (b & 0x40)):
            out.append(b)
            return out
        out.append(b | 0x80)
