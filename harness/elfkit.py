"""harness.elfkit - build small ELF images (lists of byte values, possibly symbolic) from
field-level descriptions, using the gABI layouts of spec.elf_layout.  z3-free."""
from spec import elf_layout as L
from spec import enc


class Image:
    def __init__(self, elfclass=64, little=True, machine=62, e_type=2, osabi=0):
        self.elfclass = elfclass
        self.little = little
        self.machine = machine
        self.e_type = e_type
        self.osabi = osabi
        self.ehsize = L.sizeof('EHDR', elfclass) + 16
        self.body = []             # bytes after the ELF header
        self.sections = []         # dict of header fields (+ '_name': str)
        self.segments = []
        self.ehdr = {}

    # ---- raw data --------------------------------------------------------------
    def here(self):
        return self.ehsize + len(self.body)

    def pad_to(self, align):
        while self.here() % align:
            self.body.append(0)

    def blob(self, data, align=1):
        self.pad_to(align)
        off = self.here()
        self.body += list(data)
        return off

    def struct(self, name, values, align=1):
        return self.blob(L.encode(name, self.elfclass, self.little, values), align)

    # ---- headers ------------------------------------------------------------------
    def section(self, name='', **fields):
        fields = dict(fields)
        fields['_name'] = name
        self.sections.append(fields)
        return len(self.sections) - 1

    def segment(self, **fields):
        self.segments.append(dict(fields))
        return len(self.segments) - 1

    def add_shstrtab(self, index_field=True, name='.shstrtab', extra=b''):
        """create the section-name string table from the names given so far (and its own name); returns its index"""
        names = [s['_name'] for s in self.sections] + [name]
        tab = [0]
        offs = {'': 0}
        for n in names:
            if n not in offs:
                offs[n] = len(tab)
                tab += [ord(c) for c in n] + [0]
        tab += list(extra)
        off = self.blob(tab)
        idx = self.section(name, sh_type=L.SHT['STRTAB'], sh_offset=off, sh_size=len(tab), sh_addralign=1)
        for s in self.sections:
            if 'sh_name' not in s:
                s['sh_name'] = offs[s['_name']]
        self.shstrtab = (off, tab, offs)
        if index_field:
            self.ehdr.setdefault('e_shstrndx', idx)
        return idx

    def build(self, shoff='auto', phoff='auto', shentsize=None, phentsize=None, gap=0, tail=0, **ehdr):
        cls, little = self.elfclass, self.little
        shsz = L.sizeof('SHDR', cls)
        phsz = L.sizeof('PHDR', cls)
        shent = shentsize if shentsize is not None else shsz
        phent = phentsize if phentsize is not None else phsz
        body = list(self.body)
        pos = self.ehsize + len(body)
        h = dict(e_type=self.e_type, e_machine=self.machine, e_version=1, e_ehsize=self.ehsize,
                 e_phentsize=phent if self.segments or phentsize is not None else 0, e_phnum=len(self.segments),
                 e_shentsize=shent if self.sections or shentsize is not None else 0, e_shnum=len(self.sections), e_shstrndx=0)
        if self.segments and phoff == 'auto':
            body += [0xAB] * gap
            pos += gap
            phoff = pos
        if self.segments:
            for s in self.segments:
                ent = L.encode('PHDR', cls, little, s)
                body += ent + [0x5A] * (phent - phsz)
            pos = self.ehsize + len(body)
        if self.sections and shoff == 'auto':
            body += [0xCD] * gap
            pos += gap
            shoff = pos
        if self.sections:
            for s in self.sections:
                ent = L.encode('SHDR', cls, little, {k: v for k, v in s.items() if not k.startswith('_')})
                body += ent + [0x5A] * (shent - shsz)
        h['e_phoff'] = phoff if self.segments else 0
        h['e_shoff'] = shoff if self.sections else 0
        h.update(self.ehdr)
        h.update(ehdr)
        self.header_values = h
        self.shoff, self.phoff, self.shent, self.phent = h['e_shoff'], h['e_phoff'], shent, phent
        img = L.ident(cls, little, self.osabi) + L.encode('EHDR', cls, little, h) + body + [0xEF] * tail
        return img


def machines_of_interest():
    """EM_* names that the library's CODE mentions (structs, relocation handling, dynamic/notes...; not its enumeration and
    description tables, nor the machine -> name dictionary of get_machine_arch): every machine the current source may treat
    specially.  Computed from the source under $VERIF_REPO at run time, so a special case somebody adds is picked up."""
    import os
    import re
    repo = os.environ.get('VERIF_REPO', '/repo')
    names = set()
    for root, _, files in os.walk(os.path.join(repo, 'elftools')):
        if os.sep + 'construct' in root:
            continue
        for fn in files:
            if not fn.endswith('.py') or fn in ('enums.py', 'descriptions.py'):
                continue
            try:
                src = open(os.path.join(root, fn), encoding='utf-8', errors='replace').read()
            except OSError:
                continue
            for m in re.finditer(r"""['"](EM_[A-Za-z0-9_]+)['"](\s*:\s*['"])?""", src):
                if not m.group(2):
                    names.add(m.group(1))
    return sorted(names)


def stream_length(stream):
    """ELFFile.stream_len of a harness double: the size of the stream (position preserved)"""
    if stream is None:
        return 0
    pos = stream.tell()
    stream.seek(0, 2)
    n = stream.tell()
    stream.seek(pos)
    return n


_ET = {'ET_NONE': 0, 'ET_REL': 1, 'ET_EXEC': 2, 'ET_DYN': 3, 'ET_CORE': 4, None: 2}


def elf_object(ctx, stream, cls, little, machine='EM_X86_64', e_type='ET_EXEC', osabi=0):
    """A REAL ELFFile (opened on a minimal, valid header-only image of the wanted class / byte order / machine / file type) whose
    stream is then replaced by `stream`: the object the section and table classes of the library receive as `elffile`.
    Being the library's own object it has every attribute ELFFile.__init__ sets up, whatever they are in the current source -
    a hand-written double would fail on an attribute it does not know, for a reason that says nothing about the property."""
    from spec import registry as REG
    EF = ctx.lib('elf.elffile')
    if isinstance(machine, str):
        vals = sorted(REG.values(machine))
        mnum = vals[0] if vals else 0
    else:
        mnum = machine
    img = Image(cls, little, machine=mnum, e_type=_ET.get(e_type, e_type), osabi=osabi) if 'osabi' in Image.__init__.__code__.co_varnames else Image(cls, little, machine=mnum, e_type=_ET.get(e_type, e_type))
    elf = open_elf(ctx, img.build())
    elf.stream = stream
    elf.stream_len = stream_length(stream)
    return elf


def open_elf(ctx, data):
    """ELFFile(data), followed by a BYSTANDER: a second file of the same class and byte order but of another machine, OS ABI and file type
    is opened before the first one is asked anything.  What an ELFFile object reports is decided by its own header; nothing it uses may be
    shared with (and re-configured by) a file opened later in the same process."""
    EF = ctx.lib('elf.elffile')
    elf = EF.ELFFile(ctx.stream(data))
    m = elf.header['e_machine']
    other = 8 if (isinstance(m, str) and m == 'EM_ARM') else 40
    by = Image(elf.elfclass, elf.little_endian, machine=other, e_type=4, osabi=6)
    by.section('', sh_type=0)
    by.add_shstrtab()
    by.segment(p_type=1, p_offset=0, p_filesz=16)
    ctx.keep = getattr(ctx, 'keep', [])
    ctx.keep.append(EF.ELFFile(ctx.stream(by.build())))
    return elf


def shdr(**kw):
    """a COMPLETE section header (every field of Elf_Shdr present): harness objects built from a partial header would report a change
    that merely looks at another field as a KeyError - by accident, and just as well for a correct change"""
    h = dict(sh_name=0, sh_type='SHT_PROGBITS', sh_flags=0, sh_addr=0, sh_offset=0, sh_size=0, sh_link=0, sh_info=0, sh_addralign=1, sh_entsize=0)
    h.update(kw)
    return h


def phdr(**kw):
    """a COMPLETE program header; p_memsz defaults to 0 (legal for everything but PT_LOAD: the note segment of a core file)"""
    h = dict(p_type='PT_NULL', p_flags=4, p_offset=0, p_vaddr=0, p_paddr=0, p_filesz=0, p_memsz=0, p_align=1)
    h.update(kw)
    return h
