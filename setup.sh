#!/bin/sh
# setup: verify the tooling the checks need; validate the AST rewrite and the stubs.
cd "$(dirname "$0")" || exit 1
python3-vt -c "import z3; print('z3', z3.get_version_string())" || exit 1
test -x /venv/bin/python || echo "note: /venv/bin/python missing, replay falls back to python3-vt"
python3-vt -m symx.selftest || exit 1
python3 tools/check_layout.py || exit 1
