"""spec.cfi - reference model of DWARF call frame information, written from DWARF 5
section 6.4 (6.4.1 structure of CFI, 6.4.2 call frame instructions, 7.24 encodings),
the LSB/airs.com description of .eh_frame, and the GNU/AArch64 extension opcodes.
Table convention (documented by the library): a row is a dict pc / cfa / {reg: rule};
a row is recorded whenever the location advances, and the current row is recorded at
the end unless it is completely empty.  z3-free."""
from . import enc

# primary opcodes (high 2 bits)
ADVANCE_LOC, OFFSET, RESTORE = 0x40, 0x80, 0xc0
# extended opcodes -> (name, operand kinds)
EXT = {
    0x00: ('DW_CFA_nop', []), 0x01: ('DW_CFA_set_loc', ['addr']), 0x02: ('DW_CFA_advance_loc1', ['u1']),
    0x03: ('DW_CFA_advance_loc2', ['u2']), 0x04: ('DW_CFA_advance_loc4', ['u4']), 0x05: ('DW_CFA_offset_extended', ['uleb', 'uleb']),
    0x06: ('DW_CFA_restore_extended', ['uleb']), 0x07: ('DW_CFA_undefined', ['uleb']), 0x08: ('DW_CFA_same_value', ['uleb']),
    0x09: ('DW_CFA_register', ['uleb', 'uleb']), 0x0a: ('DW_CFA_remember_state', []), 0x0b: ('DW_CFA_restore_state', []),
    0x0c: ('DW_CFA_def_cfa', ['uleb', 'uleb']), 0x0d: ('DW_CFA_def_cfa_register', ['uleb']), 0x0e: ('DW_CFA_def_cfa_offset', ['uleb']),
    0x0f: ('DW_CFA_def_cfa_expression', ['block']), 0x10: ('DW_CFA_expression', ['uleb', 'block']),
    0x11: ('DW_CFA_offset_extended_sf', ['uleb', 'sleb']), 0x12: ('DW_CFA_def_cfa_sf', ['uleb', 'sleb']),
    0x13: ('DW_CFA_def_cfa_offset_sf', ['sleb']), 0x14: ('DW_CFA_val_offset', ['uleb', 'uleb']),
    0x15: ('DW_CFA_val_offset_sf', ['uleb', 'sleb']), 0x16: ('DW_CFA_val_expression', ['uleb', 'block']),
    0x2d: ('DW_CFA_AARCH64_negate_ra_state', []),      # = DW_CFA_GNU_window_save
    0x2e: ('DW_CFA_GNU_args_size', ['uleb']),
}


def opcode_info(op):
    """concrete opcode byte -> (name, embedded operand or None, operand kinds) or None if unassigned"""
    hi = op & 0xc0
    lo = op & 0x3f
    if hi == ADVANCE_LOC:
        return 'DW_CFA_advance_loc', lo, []
    if hi == OFFSET:
        return 'DW_CFA_offset', lo, ['uleb']
    if hi == RESTORE:
        return 'DW_CFA_restore', lo, []
    if op in EXT:
        return EXT[op][0], None, list(EXT[op][1])
    return None


def gen_instr(ctx, nm, op, shape, little, addr_size):
    """bytes and expected args of instruction `op` (concrete) with symbolic operand values.
    shape: dict(leb=[n,...] per LEB operand, blob=k)"""
    name, emb, kinds = opcode_info(op)
    out = [op]
    args = [] if emb is None else [emb]
    lebs = list(shape.get('leb', []))
    for j, k in enumerate(kinds):
        v = '%s.%d' % (nm, j)
        if k in ('uleb', 'sleb'):
            n = lebs.pop(0) if lebs else 1
            if k == 'uleb':
                if 'regs' in shape and j == 0 and name not in ('DW_CFA_def_cfa_offset', 'DW_CFA_GNU_args_size'):
                    x = ctx.int_range(v, 0, shape['regs'])
                else:
                    x = ctx.uint(v, 7 * n)
                out += enc.uleb_enc(x, n)
            else:
                x = ctx.sint(v, 7 * n)
                out += enc.sleb_enc(x, n)
            args.append(x)
        elif k == 'addr':
            x = ctx.uint(v, 8 * addr_size)
            out += enc.enc_int(x, addr_size, little)
            args.append(x)
        elif k in ('u1', 'u2', 'u4'):
            sz = int(k[1])
            x = ctx.uint(v, 8 * sz)
            out += enc.enc_int(x, sz, little)
            args.append(x)
        elif k == 'block':
            b = shape.get('blob', 0)
            cells = ctx.bytes(v, b)
            out += enc.uleb_enc(b, shape.get('bloblen', 1 if b < 0x80 else 2)) + cells       # the length is a ULEB128: padded and multi-byte encodings
            args.append(list(cells))
    return out, name, args


# ---------------------------------------------------------------------------- table interpretation (6.4.2)
def new_line(pc):
    return dict(pc=pc, cfa=dict(reg=None, offset=0, expr=None), regs={})


def copy_line(l):
    return dict(pc=l['pc'], cfa=dict(l['cfa']), regs=dict(l['regs']))


def interpret(ctx, instrs, caf, daf, initial=None, initial_order=None, pc0=0, is_fde=False):
    """instrs: list of (name, args) with register operands CONCRETE python ints.
    initial: the CIE's last row (dict as new_line) or None.  -> (rows, reg_order) or raises IllFormed"""
    cur = copy_line(initial) if initial is not None else new_line(pc0)
    cur['pc'] = pc0
    cie_rules = dict(initial['regs']) if initial is not None else {}
    order = list(initial_order or [])
    rows = []
    stack = []

    def touch(r):
        if r not in order:
            order.append(r)
    for name, a in instrs:
        if name == 'DW_CFA_set_loc':
            rows.append(copy_line(cur))
            cur['pc'] = a[0]
        elif name in ('DW_CFA_advance_loc', 'DW_CFA_advance_loc1', 'DW_CFA_advance_loc2', 'DW_CFA_advance_loc4'):
            rows.append(copy_line(cur))
            cur['pc'] = cur['pc'] + a[0] * caf
        elif name == 'DW_CFA_def_cfa':
            cur['cfa'] = dict(reg=a[0], offset=a[1], expr=None)
        elif name == 'DW_CFA_def_cfa_sf':
            cur['cfa'] = dict(reg=a[0], offset=a[1] * daf, expr=None)
        elif name == 'DW_CFA_def_cfa_register':
            cur['cfa'] = dict(reg=a[0], offset=cur['cfa']['offset'], expr=None)
        elif name == 'DW_CFA_def_cfa_offset':
            cur['cfa'] = dict(reg=cur['cfa']['reg'], offset=a[0], expr=None)
        elif name == 'DW_CFA_def_cfa_offset_sf':
            cur['cfa'] = dict(reg=cur['cfa']['reg'], offset=a[0] * daf, expr=None)
        elif name == 'DW_CFA_def_cfa_expression':
            cur['cfa'] = dict(reg=None, offset=None, expr=a[0])
        elif name == 'DW_CFA_undefined':
            touch(a[0]); cur['regs'][a[0]] = ('UNDEFINED', None)
        elif name == 'DW_CFA_same_value':
            touch(a[0]); cur['regs'][a[0]] = ('SAME_VALUE', None)
        elif name in ('DW_CFA_offset', 'DW_CFA_offset_extended', 'DW_CFA_offset_extended_sf'):
            touch(a[0]); cur['regs'][a[0]] = ('OFFSET', a[1] * daf)
        elif name in ('DW_CFA_val_offset', 'DW_CFA_val_offset_sf'):
            touch(a[0]); cur['regs'][a[0]] = ('VAL_OFFSET', a[1] * daf)
        elif name == 'DW_CFA_register':
            touch(a[0]); cur['regs'][a[0]] = ('REGISTER', a[1])
        elif name == 'DW_CFA_expression':
            touch(a[0]); cur['regs'][a[0]] = ('EXPRESSION', a[1])
        elif name == 'DW_CFA_val_expression':
            touch(a[0]); cur['regs'][a[0]] = ('VAL_EXPRESSION', a[1])
        elif name in ('DW_CFA_restore', 'DW_CFA_restore_extended'):
            if not is_fde:
                raise IllFormed('restore in a CIE')
            touch(a[0])
            if a[0] in cie_rules:
                cur['regs'][a[0]] = cie_rules[a[0]]
            else:
                cur['regs'].pop(a[0], None)
        elif name == 'DW_CFA_remember_state':
            stack.append(copy_line(cur))
        elif name == 'DW_CFA_restore_state':
            if not stack:
                raise IllFormed('restore_state without remember_state')
            pc = cur['pc']
            cur = stack.pop()
            cur['pc'] = pc
        # nop, GNU_args_size, negate_ra_state: no effect on the table
    if cur['cfa']['reg'] is not None or cur['cfa']['expr'] is not None or cur['regs']:
        rows.append(cur)
    return rows, order


class IllFormed(Exception):
    pass


def view_table(decoded):
    """library DecodedCallFrameTable -> (rows, reg_order) in the reference representation"""
    rows = []
    for line in decoded.table:
        cfa = line['cfa']
        regs = {}
        for k, v in line.items():
            if k in ('pc', 'cfa'):
                continue
            regs[k] = (v.type, v.arg)
        rows.append(dict(pc=line['pc'], cfa=dict(reg=cfa.reg, offset=cfa.offset, expr=cfa.expr), regs=regs))
    return rows, list(decoded.reg_order)
