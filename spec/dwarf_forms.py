"""spec.dwarf_forms - attribute form encodings, written from DWARF 5 section 7.5.6 (table 7.6,
form class descriptions) and DWARF 2-4 for the version dependent forms, plus the GNU
alternate-file forms.  Encoding kinds: addr, off (offset size of the unit's format),
u1/u2/u3/u4/u8, uleb, sleb, cstring, block1/2/4/blockv (length prefix + bytes), data16,
flag (1 byte -> bool), present (0 bytes), indirect, implicit (value in the abbreviation),
ref_addr (address size in DWARF 2, offset size later).  z3-free."""
from . import enc

FORMS = {
    0x01: ('DW_FORM_addr', 'addr'), 0x03: ('DW_FORM_block2', 'block2'), 0x04: ('DW_FORM_block4', 'block4'), 0x05: ('DW_FORM_data2', 'u2'),
    0x06: ('DW_FORM_data4', 'u4'), 0x07: ('DW_FORM_data8', 'u8'), 0x08: ('DW_FORM_string', 'cstring'), 0x09: ('DW_FORM_block', 'blockv'),
    0x0a: ('DW_FORM_block1', 'block1'), 0x0b: ('DW_FORM_data1', 'u1'), 0x0c: ('DW_FORM_flag', 'flag'), 0x0d: ('DW_FORM_sdata', 'sleb'),
    0x0e: ('DW_FORM_strp', 'off'), 0x0f: ('DW_FORM_udata', 'uleb'), 0x10: ('DW_FORM_ref_addr', 'ref_addr'), 0x11: ('DW_FORM_ref1', 'u1'),
    0x12: ('DW_FORM_ref2', 'u2'), 0x13: ('DW_FORM_ref4', 'u4'), 0x14: ('DW_FORM_ref8', 'u8'), 0x15: ('DW_FORM_ref_udata', 'uleb'),
    0x16: ('DW_FORM_indirect', 'indirect'), 0x17: ('DW_FORM_sec_offset', 'off'), 0x18: ('DW_FORM_exprloc', 'blockv'),
    0x19: ('DW_FORM_flag_present', 'present'), 0x1a: ('DW_FORM_strx', 'uleb'), 0x1b: ('DW_FORM_addrx', 'uleb'), 0x1c: ('DW_FORM_ref_sup4', 'u4'),
    0x1d: ('DW_FORM_strp_sup', 'off'), 0x1e: ('DW_FORM_data16', 'data16'), 0x1f: ('DW_FORM_line_strp', 'off'), 0x20: ('DW_FORM_ref_sig8', 'u8'),
    0x21: ('DW_FORM_implicit_const', 'implicit'), 0x22: ('DW_FORM_loclistx', 'uleb'), 0x23: ('DW_FORM_rnglistx', 'uleb'),
    0x24: ('DW_FORM_ref_sup8', 'u8'), 0x25: ('DW_FORM_strx1', 'u1'), 0x26: ('DW_FORM_strx2', 'u2'), 0x27: ('DW_FORM_strx3', 'u3'),
    0x28: ('DW_FORM_strx4', 'u4'), 0x29: ('DW_FORM_addrx1', 'u1'), 0x2a: ('DW_FORM_addrx2', 'u2'), 0x2b: ('DW_FORM_addrx3', 'u3'),
    0x2c: ('DW_FORM_addrx4', 'u4'), 0x1f20: ('DW_FORM_GNU_ref_alt', 'off'), 0x1f21: ('DW_FORM_GNU_strp_alt', 'off'),
}
BY_NAME = {v[0]: (k, v[1]) for k, v in FORMS.items()}
STRX = ('DW_FORM_strx', 'DW_FORM_strx1', 'DW_FORM_strx2', 'DW_FORM_strx3', 'DW_FORM_strx4')
ADDRX = ('DW_FORM_addrx', 'DW_FORM_addrx1', 'DW_FORM_addrx2', 'DW_FORM_addrx3', 'DW_FORM_addrx4')


class Env:
    def __init__(self, version, fmt64, little, addr):
        self.version = version
        self.fmt64 = fmt64
        self.little = little
        self.addr = addr
        self.offsz = 8 if fmt64 else 4


def gen_value(ctx, E, code, nm, shape=None):
    """symbolic value of form `code` -> (bytes, raw value as the library documents it)
    raw: ints for numbers, bytes for strings, list of ints for blocks / data16, b'' for flag_present"""
    shape = shape or {}
    name, kind = FORMS[code]
    if kind == 'addr':
        v = ctx.uint(nm, 8 * E.addr)
        return enc.enc_int(v, E.addr, E.little), v
    if kind == 'off':
        v = ctx.uint(nm, 8 * E.offsz)
        return enc.enc_int(v, E.offsz, E.little), v
    if kind == 'ref_addr':
        sz = E.addr if E.version == 2 else E.offsz
        v = ctx.uint(nm, 8 * sz)
        return enc.enc_int(v, sz, E.little), v
    if kind in ('u1', 'u2', 'u3', 'u4', 'u8'):
        sz = int(kind[1])
        v = ctx.uint(nm, 8 * sz)
        return enc.enc_int(v, sz, E.little), v
    if kind == 'uleb':
        n = shape.get('leb', 1)
        v = ctx.uint(nm, 7 * n)
        return enc.uleb_enc(v, n), v
    if kind == 'sleb':
        n = shape.get('leb', 1)
        v = ctx.sint(nm, 7 * n)
        return enc.sleb_enc(v, n), v
    if kind == 'cstring':
        k = shape.get('len', 2)
        cells = [ctx.int_range('%s[%d]' % (nm, i), 1, 255) for i in range(k)]
        return cells + [0], ctx.mkbytes(cells)
    if kind in ('block1', 'block2', 'block4', 'blockv'):
        k = shape.get('len', 2)
        cells = ctx.bytes(nm, k)
        if kind == 'blockv':
            pre = enc.uleb_enc(k, shape.get('lenleb', 1))
        else:
            pre = enc.enc_int(k, int(kind[5]), E.little)
        return pre + cells, list(cells)
    if kind == 'data16':
        cells = ctx.bytes(nm, 16)
        return cells, list(cells)
    if kind == 'flag':
        v = ctx.uint(nm, 8)
        return [v], v
    if kind == 'present':
        return [], b''
    raise ValueError(kind)
