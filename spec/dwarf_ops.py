"""spec.dwarf_ops - operand table of DWARF expression operations, written from DWARF 5
section 7.7.1 (table 7.9) plus the GNU and WebAssembly extensions the library documents.
Operand kinds: u1 s1 u2 s2 u4 s4 u8 s8 uleb sleb addr off  block(uleb size + bytes)
expr(uleb size + nested expression)  typedblob(uleb type, u1 size, bytes)  wasm.  z3-free."""
from . import enc

OPERANDS = {
    0x03: ('DW_OP_addr', ['addr']), 0x06: ('DW_OP_deref', []),
    0x08: ('DW_OP_const1u', ['u1']), 0x09: ('DW_OP_const1s', ['s1']), 0x0a: ('DW_OP_const2u', ['u2']),
    0x0b: ('DW_OP_const2s', ['s2']), 0x0c: ('DW_OP_const4u', ['u4']), 0x0d: ('DW_OP_const4s', ['s4']),
    0x0e: ('DW_OP_const8u', ['u8']), 0x0f: ('DW_OP_const8s', ['s8']), 0x10: ('DW_OP_constu', ['uleb']),
    0x11: ('DW_OP_consts', ['sleb']), 0x12: ('DW_OP_dup', []), 0x13: ('DW_OP_drop', []), 0x14: ('DW_OP_over', []),
    0x15: ('DW_OP_pick', ['u1']), 0x16: ('DW_OP_swap', []), 0x17: ('DW_OP_rot', []), 0x18: ('DW_OP_xderef', []),
    0x19: ('DW_OP_abs', []), 0x1a: ('DW_OP_and', []), 0x1b: ('DW_OP_div', []), 0x1c: ('DW_OP_minus', []),
    0x1d: ('DW_OP_mod', []), 0x1e: ('DW_OP_mul', []), 0x1f: ('DW_OP_neg', []), 0x20: ('DW_OP_not', []),
    0x21: ('DW_OP_or', []), 0x22: ('DW_OP_plus', []), 0x23: ('DW_OP_plus_uconst', ['uleb']), 0x24: ('DW_OP_shl', []),
    0x25: ('DW_OP_shr', []), 0x26: ('DW_OP_shra', []), 0x27: ('DW_OP_xor', []), 0x28: ('DW_OP_bra', ['s2']),
    0x29: ('DW_OP_eq', []), 0x2a: ('DW_OP_ge', []), 0x2b: ('DW_OP_gt', []), 0x2c: ('DW_OP_le', []), 0x2d: ('DW_OP_lt', []),
    0x2e: ('DW_OP_ne', []), 0x2f: ('DW_OP_skip', ['s2']),
    0x90: ('DW_OP_regx', ['uleb']), 0x91: ('DW_OP_fbreg', ['sleb']), 0x92: ('DW_OP_bregx', ['uleb', 'sleb']),
    0x93: ('DW_OP_piece', ['uleb']), 0x94: ('DW_OP_deref_size', ['u1']), 0x95: ('DW_OP_xderef_size', ['u1']),
    0x96: ('DW_OP_nop', []), 0x97: ('DW_OP_push_object_address', []), 0x98: ('DW_OP_call2', ['u2']),
    0x99: ('DW_OP_call4', ['u4']), 0x9a: ('DW_OP_call_ref', ['off']), 0x9b: ('DW_OP_form_tls_address', []),
    0x9c: ('DW_OP_call_frame_cfa', []), 0x9d: ('DW_OP_bit_piece', ['uleb', 'uleb']), 0x9e: ('DW_OP_implicit_value', ['block']),
    0x9f: ('DW_OP_stack_value', []), 0xa0: ('DW_OP_implicit_pointer', ['off', 'sleb']), 0xa1: ('DW_OP_addrx', ['uleb']),
    0xa2: ('DW_OP_constx', ['uleb']), 0xa3: ('DW_OP_entry_value', ['expr']), 0xa4: ('DW_OP_const_type', ['typedblob']),
    0xa5: ('DW_OP_regval_type', ['uleb', 'uleb']), 0xa6: ('DW_OP_deref_type', ['u1', 'uleb']),
    0xa7: ('DW_OP_xderef_type', ['u1', 'uleb']), 0xa8: ('DW_OP_convert', ['uleb']), 0xa9: ('DW_OP_reinterpret', ['uleb']),
    # GNU / WebAssembly extensions
    0xe0: ('DW_OP_GNU_push_tls_address', []), 0xf0: ('DW_OP_GNU_uninit', []),
    0xf2: ('DW_OP_GNU_implicit_pointer', ['off', 'sleb']), 0xf3: ('DW_OP_GNU_entry_value', ['expr']),
    0xf4: ('DW_OP_GNU_const_type', ['typedblob']), 0xf5: ('DW_OP_GNU_regval_type', ['uleb', 'uleb']),
    0xf6: ('DW_OP_GNU_deref_type', ['u1', 'uleb']), 0xf7: ('DW_OP_GNU_convert', ['uleb']),
    0xfa: ('DW_OP_GNU_parameter_ref', ['gnu_pref']), 0xed: ('DW_OP_WASM_location', ['wasm']),
}
for _i in range(32):
    OPERANDS[0x30 + _i] = ('DW_OP_lit%d' % _i, [])
    OPERANDS[0x50 + _i] = ('DW_OP_reg%d' % _i, [])
    OPERANDS[0x70 + _i] = ('DW_OP_breg%d' % _i, ['sleb'])

FIXED = {'u1': (1, False), 's1': (1, True), 'u2': (2, False), 's2': (2, True), 'u4': (4, False), 's4': (4, True),
         'u8': (8, False), 's8': (8, True)}


class Env:
    def __init__(self, little, addr_size, offset_size):
        self.little = little
        self.addr_size = addr_size
        self.offset_size = offset_size


def gen_operand(ctx, E, kind, nm, shape):
    """-> (bytes, expected python value).  `shape` fixes lengths: leb byte counts, blob sizes, nested skeletons"""
    if kind in FIXED:
        size, signed = FIXED[kind]
        v = ctx.sint(nm, 8 * size) if signed else ctx.uint(nm, 8 * size)
        return enc.enc_int(v, size, E.little), v
    if kind == 'addr':
        v = ctx.uint(nm, 8 * E.addr_size)
        return enc.enc_int(v, E.addr_size, E.little), v
    if kind == 'off':
        v = ctx.uint(nm, 8 * E.offset_size)
        return enc.enc_int(v, E.offset_size, E.little), v
    if kind == 'gnu_pref':
        v = ctx.uint(nm, 32)
        return enc.enc_int(v, 4, E.little), v
    if kind == 'uleb':
        n = shape.get('leb', 1)
        v = ctx.uint(nm, 7 * n)
        return enc.uleb_enc(v, n), v
    if kind == 'sleb':
        n = shape.get('leb', 1)
        v = ctx.sint(nm, 7 * n)
        return enc.sleb_enc(v, n), v
    if kind == 'block':
        k = shape.get('blob', 0)
        cells = ctx.bytes(nm, k)
        return enc.uleb_enc(k, shape.get('sizeleb', 1)) + cells, list(cells)
    if kind == 'typedblob':
        k = shape.get('blob', 0)
        n = shape.get('leb', 1)
        t = ctx.uint(nm + '.type', 7 * n)
        cells = ctx.bytes(nm, k)
        return enc.uleb_enc(t, n) + [k] + cells, [t, list(cells)]
    if kind == 'wasm':
        wk = shape.get('wasm', 0)
        if wk <= 2:
            n = shape.get('leb', 1)
            v = ctx.uint(nm, 7 * n)
            return [wk] + enc.uleb_enc(v, n), [wk, v]
        v = ctx.uint(nm, 32)
        return [3] + enc.enc_int(v, 4, E.little), [3, v]
    if kind == 'expr':
        sub = shape.get('nested', [])
        b, ops = gen_expr(ctx, E, sub, nm)
        return enc.uleb_enc(len(b), shape.get('sizeleb', 1)) + b, ops
    raise ValueError(kind)


def gen_expr(ctx, E, skeleton, nm='e'):
    """skeleton: list of (opcode, [shape per operand]); -> (bytes, [expected (op, name, args, offset)])"""
    out = []
    ops = []
    for i, (opcode, shapes) in enumerate(skeleton):
        name, kinds = OPERANDS[opcode]
        off = len(out)
        out.append(opcode)
        args = []
        for j, kind in enumerate(kinds):
            b, v = gen_operand(ctx, E, kind, '%s.%d.%d' % (nm, i, j), shapes[j] if j < len(shapes) else {})
            out += b
            if kind == 'wasm':
                args += v
            elif kind == 'typedblob':
                args += v
            else:
                args.append(v)
        ops.append((opcode, name, args, off))
    return out, ops


def shapes_for(opcode, lebmax, blobmax, tier_nested):
    """all operand shape combinations for one opcode"""
    kinds = OPERANDS[opcode][1]
    per = []
    for k in kinds:
        if k in ('uleb', 'sleb'):
            per.append([{'leb': n} for n in range(1, lebmax + 1)])
        elif k == 'block':
            per.append([{'blob': b} for b in range(0, blobmax + 1)] + [{'blob': 1, 'sizeleb': 2}])
        elif k == 'typedblob':
            per.append([{'blob': b, 'leb': n} for b in range(0, blobmax + 1) for n in (1, 2)])
        elif k == 'wasm':
            per.append([{'wasm': w, 'leb': n} for w in (0, 1, 2) for n in range(1, lebmax + 1)] + [{'wasm': 3}])
        elif k == 'expr':
            per.append([{'nested': sk} for sk in tier_nested] + [{'nested': tier_nested[1], 'sizeleb': 2}])
        else:
            per.append([{}])
    combos = [[]]
    for alts in per:
        combos = [c + [a] for c in combos for a in alts]
    return combos
