"""spec.ehabi - reference model of ARM exception-handling tables, written from
"Exception Handling ABI for the Arm Architecture" (IHI 0038): section 5 (index table
entries), 6.2/6.3 (compact model personalities 0-2), 9.3 table 4 (frame unwinding
instructions).  The mnemonic text follows LLVM's ARMEHABIPrinter, which the library
documents as its reference output format.  z3-free."""

M64 = (1 << 64) - 1


def prel31(word, place):
    """place + sign-extended 31-bit displacement (bit 30 is the sign), as an unsigned 64-bit value"""
    disp = word & 0x7fffffff
    sign = (word >> 30) & 1
    disp = disp - (sign << 31)
    return (disp + place) & M64


GPR = ("r0", "r1", "r2", "r3", "r4", "r5", "r6", "r7", "r8", "r9", "r10", "fp", "ip", "sp", "lr", "pc")


def _regs(ctx, mask, names):
    """forking: list of register names selected by the bit mask"""
    out = []
    for i, n in enumerate(names):
        if ctx.fork((mask >> i) & 1 != 0):
            out.append(n)
    return '{%s}' % ', '.join(out)


def _range(start, count):
    return ((1 << (count + 1)) - 1) << start


def _prefixed(prefix, n=32):
    return [prefix + str(i) for i in range(n)]


def disasm_one(ctx, bs, i):
    """decode the instruction at bs[i]; -> (length, mnemonic) or None if it runs past the end"""
    n = len(bs)
    b = bs[i]

    def need(k):
        return i + k <= n
    f = ctx.fork
    if f(b & 0xc0 == 0x00):
        return 1, ctx.fmt('vsp = vsp + %u', ((b & 0x3f) << 2) + 4)
    if f(b & 0xc0 == 0x40):
        return 1, ctx.fmt('vsp = vsp - %u', ((b & 0x3f) << 2) + 4)
    if f(b & 0xf0 == 0x80):
        if not need(2):
            return None
        mask = ((b & 0x0f) << 12) | (bs[i + 1] << 4)
        if f(mask == 0):
            return 2, 'refuse to unwind'
        return 2, 'pop ' + _regs(ctx, mask, GPR)
    if f(b == 0x9d):
        return 1, 'reserved (ARM MOVrr)'
    if f(b == 0x9f):
        return 1, 'reserved (WiMMX MOVrr)'
    if f(b & 0xf0 == 0x90):
        return 1, ctx.fmt('vsp = r%u', b & 0x0f)
    if f(b & 0xf8 == 0xa0):
        return 1, 'pop ' + _regs(ctx, _range(4, b & 7), GPR)
    if f(b & 0xf8 == 0xa8):
        return 1, 'pop ' + _regs(ctx, _range(4, b & 7) | (1 << 14), GPR)
    if f(b == 0xb0):
        return 1, 'finish'
    if f(b == 0xb1):
        if not need(2):
            return None
        o = bs[i + 1]
        if f(ctx.lor(o & 0xf0 != 0, o == 0)):
            return 2, 'spare'
        return 2, 'pop ' + _regs(ctx, o & 0x0f, GPR)
    if f(b == 0xb2):
        # uleb128 operand: bytes up to and including the first one with bit 7 clear
        k = i + 1
        val = 0
        sh = 0
        while True:
            if k >= n:
                return None
            c = bs[k]
            val = val | ((c & 0x7f) << sh)
            sh += 7
            k += 1
            if f(c & 0x80 == 0):
                break
        return k - i, ctx.fmt('vsp = vsp + %u', 0x204 + (val << 2))
    if f(b == 0xb3):
        if not need(2):
            return None
        o = bs[i + 1]
        return 2, 'pop ' + _regs(ctx, _range((o >> 4) & 0xf, o & 0xf), _prefixed('d'))
    if f(b & 0xfc == 0xb4):
        return 1, 'spare'
    if f(b & 0xf8 == 0xb8):
        return 1, 'pop ' + _regs(ctx, _range(8, b & 7), _prefixed('d'))
    if f(b == 0xc6):
        if not need(2):
            return None
        o = bs[i + 1]
        return 2, 'pop ' + _regs(ctx, _range((o >> 4) & 0xf, o & 0xf), _prefixed('wR'))
    if f(b == 0xc7):
        if not need(2):
            return None
        o = bs[i + 1]
        if f(ctx.lor(o & 0xf0 != 0, o == 0)):
            return 2, 'spare'
        return 2, 'pop ' + _regs(ctx, o & 0x0f, _prefixed('wCGR'))
    if f(b == 0xc8):
        if not need(2):
            return None
        o = bs[i + 1]
        return 2, 'pop ' + _regs(ctx, _range(16 + ((o >> 4) & 0xf), o & 0xf), _prefixed('d'))
    if f(b == 0xc9):
        if not need(2):
            return None
        o = bs[i + 1]
        return 2, 'pop ' + _regs(ctx, _range((o >> 4) & 0xf, o & 0xf), _prefixed('d'))
    if f(b & 0xf8 == 0xc8):
        return 1, 'spare'
    if f(b & 0xf8 == 0xc0):
        return 1, 'pop ' + _regs(ctx, _range(10, b & 7), _prefixed('wR'))
    if f(b & 0xf8 == 0xd0):
        return 1, 'pop ' + _regs(ctx, _range(8, b & 7), _prefixed('d'))
    return 1, 'spare'


def disasm(ctx, bs):
    """-> list of (byte list, mnemonic) or None if the array ends inside an instruction"""
    out = []
    i = 0
    while i < len(bs):
        r = disasm_one(ctx, bs, i)
        if r is None:
            return None
        ln, text = r
        out.append((list(bs[i:i + ln]), text))
        i += ln
    return out


def index_entry(ctx, word0, word1, place, read_word, max_more=None):
    """classify one .ARM.exidx entry.  read_word(offset) -> 32-bit table word or None (outside the image).
    -> dict(kind, function_offset, personality, bytecode, eh_table_offset) or None if ill-formed (table word missing)"""
    f = ctx.fork
    if f(word0 & 0x80000000 != 0):
        return dict(kind='corrupt')
    fo = prel31(word0, place)
    if f(word1 == 1):
        return dict(kind='cantunwind', function_offset=fo)
    if f(word1 & 0x80000000 != 0):
        # inline compact model: bits 30..24 must be zero (personality routine 0)
        if f(word1 & 0x7f000000 != 0):
            return dict(kind='corrupt')
        return dict(kind='compact', function_offset=fo, personality=0, eh_table_offset=None,
                    bytecode=[(word1 >> 16) & 0xff, (word1 >> 8) & 0xff, word1 & 0xff])
    tab = prel31(word1, place + 4)
    w = read_word(tab)
    if w is None:
        return None
    if f(w & 0x80000000 == 0):
        return dict(kind='generic', function_offset=fo, personality=prel31(w, tab))
    if f(w & 0x70000000 != 0):
        return dict(kind='corrupt')
    idx = (w >> 24) & 0x0f
    if f(idx == 0):
        return dict(kind='compact', function_offset=fo, personality=0, eh_table_offset=None,
                    bytecode=[(w >> 16) & 0xff, (w >> 8) & 0xff, w & 0xff])
    if f(ctx.lor(idx == 1, idx == 2)):
        more = (w >> 16) & 0xff
        if max_more is not None:
            ctx.assume(more <= max_more)      # stated bound on the number of additional table words
        more = ctx.concretize(more)
        code = [(w >> 8) & 0xff, w & 0xff]
        for k in range(more):
            x = read_word(tab + 4 + 4 * k)
            if x is None:
                return None
            code += [(x >> 24) & 0xff, (x >> 16) & 0xff, (x >> 8) & 0xff, x & 0xff]
        return dict(kind='compact', function_offset=fo, personality=idx, bytecode=code, eh_table_offset=tab)
    return dict(kind='corrupt')
