"""spec.elf_layout - ELF structure layouts transcribed from the gABI (chapter 4 "Object
Files", chapter 5 "Program Loading and Dynamic Linking") as (field, size, signed) tables
per class, with a generic encoder/decoder.  Cross-checked against the C structs of the
vendored glibc elf.h by tools/check_layout.py at setup when a C compiler is present.
z3-free."""
from . import enc

A = 'A'      # class dependent size: 4 (ELF32) / 8 (ELF64)

EHDR = [('e_type', 2, 0), ('e_machine', 2, 0), ('e_version', 4, 0), ('e_entry', A, 0), ('e_phoff', A, 0), ('e_shoff', A, 0),
        ('e_flags', 4, 0), ('e_ehsize', 2, 0), ('e_phentsize', 2, 0), ('e_phnum', 2, 0), ('e_shentsize', 2, 0), ('e_shnum', 2, 0),
        ('e_shstrndx', 2, 0)]
SHDR = [('sh_name', 4, 0), ('sh_type', 4, 0), ('sh_flags', A, 0), ('sh_addr', A, 0), ('sh_offset', A, 0), ('sh_size', A, 0),
        ('sh_link', 4, 0), ('sh_info', 4, 0), ('sh_addralign', A, 0), ('sh_entsize', A, 0)]
PHDR32 = [('p_type', 4, 0), ('p_offset', 4, 0), ('p_vaddr', 4, 0), ('p_paddr', 4, 0), ('p_filesz', 4, 0), ('p_memsz', 4, 0),
          ('p_flags', 4, 0), ('p_align', 4, 0)]
PHDR64 = [('p_type', 4, 0), ('p_flags', 4, 0), ('p_offset', 8, 0), ('p_vaddr', 8, 0), ('p_paddr', 8, 0), ('p_filesz', 8, 0),
          ('p_memsz', 8, 0), ('p_align', 8, 0)]
SYM32 = [('st_name', 4, 0), ('st_value', 4, 0), ('st_size', 4, 0), ('st_info', 1, 0), ('st_other', 1, 0), ('st_shndx', 2, 0)]
SYM64 = [('st_name', 4, 0), ('st_info', 1, 0), ('st_other', 1, 0), ('st_shndx', 2, 0), ('st_value', 8, 0), ('st_size', 8, 0)]
REL = [('r_offset', A, 0), ('r_info', A, 0)]
RELA = [('r_offset', A, 0), ('r_info', A, 0), ('r_addend', A, 1)]
DYN = [('d_tag', A, 1), ('d_val', A, 0)]
CHDR32 = [('ch_type', 4, 0), ('ch_size', 4, 0), ('ch_addralign', 4, 0)]
CHDR64 = [('ch_type', 4, 0), ('ch_reserved', 4, 0), ('ch_size', 8, 0), ('ch_addralign', 8, 0)]
VERDEF = [('vd_version', 2, 0), ('vd_flags', 2, 0), ('vd_ndx', 2, 0), ('vd_cnt', 2, 0), ('vd_hash', 4, 0), ('vd_aux', 4, 0), ('vd_next', 4, 0)]
VERDAUX = [('vda_name', 4, 0), ('vda_next', 4, 0)]
VERNEED = [('vn_version', 2, 0), ('vn_cnt', 2, 0), ('vn_file', 4, 0), ('vn_aux', 4, 0), ('vn_next', 4, 0)]
VERNAUX = [('vna_hash', 4, 0), ('vna_flags', 2, 0), ('vna_other', 2, 0), ('vna_name', 4, 0), ('vna_next', 4, 0)]
SYMINFO = [('si_boundto', 2, 0), ('si_flags', 2, 0)]


def table(name, elfclass):
    if name == 'PHDR':
        return PHDR32 if elfclass == 32 else PHDR64
    if name == 'SYM':
        return SYM32 if elfclass == 32 else SYM64
    if name == 'CHDR':
        return CHDR32 if elfclass == 32 else CHDR64
    return globals()[name]


def fsize(sz, elfclass):
    return (4 if elfclass == 32 else 8) if sz == A else sz


def sizeof(name, elfclass):
    return sum(fsize(sz, elfclass) for _, sz, _ in table(name, elfclass))


def offsets(name, elfclass):
    out = {}
    p = 0
    for f, sz, sg in table(name, elfclass):
        out[f] = (p, fsize(sz, elfclass), sg)
        p += fsize(sz, elfclass)
    return out


def encode(name, elfclass, little, values):
    """values: dict field -> int/symbolic (missing fields = 0)"""
    out = []
    for f, sz, sg in table(name, elfclass):
        out += enc.enc_int(values.get(f, 0), fsize(sz, elfclass), little)
    return out


def decode(name, elfclass, little, cells):
    """cells: list of bytes -> dict field -> value (reference decode)"""
    out = {}
    for f, (p, sz, sg) in offsets(name, elfclass).items():
        c = cells[p:p + sz]
        out[f] = enc.dec_sint(c, little) if sg else enc.dec_uint(c, little)
    return out


def ident(elfclass, little, osabi=0, abiversion=0, version=1):
    return [0x7f, 0x45, 0x4c, 0x46, 1 if elfclass == 32 else 2, 1 if little else 2, version, osabi, abiversion] + [0] * 7


# codes used by harnesses (gABI / registries; checked against the vendored registries by C17)
SHT = dict(NULL=0, PROGBITS=1, SYMTAB=2, STRTAB=3, RELA=4, HASH=5, DYNAMIC=6, NOTE=7, NOBITS=8, REL=9, SHLIB=10, DYNSYM=11,
           INIT_ARRAY=14, FINI_ARRAY=15, PREINIT_ARRAY=16, GROUP=17, SYMTAB_SHNDX=18, RELR=19, GNU_HASH=0x6ffffff6,
           GNU_verdef=0x6ffffffd, GNU_verneed=0x6ffffffe, GNU_versym=0x6fffffff, SUNW_syminfo=0x6ffffffc, SUNW_LDYNSYM=0x6ffffff3,
           ARM_ATTRIBUTES=0x70000003, RISCV_ATTRIBUTES=0x70000003, GNU_ATTRIBUTES=0x6ffffff5)
PT = dict(NULL=0, LOAD=1, DYNAMIC=2, INTERP=3, NOTE=4, SHLIB=5, PHDR=6, TLS=7, GNU_EH_FRAME=0x6474e550, GNU_STACK=0x6474e551, GNU_RELRO=0x6474e552)
SHF = dict(WRITE=1, ALLOC=2, EXECINSTR=4, MERGE=0x10, STRINGS=0x20, INFO_LINK=0x40, TLS=0x400, COMPRESSED=0x800)
EM = dict(NONE=0, SPARC=2, I386=3, M68K=4, MIPS=8, PPC=20, PPC64=21, S390=22, ARM=40, X86_64=62, AARCH64=183, RISCV=243, BPF=247, LOONGARCH=258)
