"""spec.enc - reference encoders/decoders written from the standards (gABI data
representation, DWARF 5 section 7.6 LEB128).  Plain arithmetic only, so they run on
python ints and on symbolic proxies alike.  z3-free."""


def enc_int(v, nbytes, little):
    """two's-complement encoding of v in nbytes"""
    cells = [(v >> (8 * i)) & 0xff for i in range(nbytes)]
    return cells if little else cells[::-1]


def dec_uint(cells, little):
    cells = list(cells)
    if not little:
        cells = cells[::-1]
    v = 0
    for i, b in enumerate(cells):
        v = v + (b << (8 * i))
    return v


def dec_sint(cells, little):
    n = len(cells)
    v = dec_uint(cells, little)
    # subtract 2^(8n) when the sign bit is set; written without branching
    sign = (v >> (8 * n - 1)) & 1
    return v - (sign << (8 * n))


def uleb_enc(v, n):
    """exactly-n-byte (possibly non-minimal) ULEB128 of v, requires 0 <= v < 2^(7n)"""
    return [((v >> (7 * i)) & 0x7f) | (0x80 if i < n - 1 else 0) for i in range(n)]


def sleb_enc(v, n):
    """exactly-n-byte SLEB128 of v, requires -2^(7n-1) <= v < 2^(7n-1)"""
    return [((v >> (7 * i)) & 0x7f) | (0x80 if i < n - 1 else 0) for i in range(n)]


def uleb_dec(cells):
    """value of a complete ULEB128 (all continuation bits assumed consistent)"""
    v = 0
    for i, b in enumerate(cells):
        v = v + ((b & 0x7f) << (7 * i))
    return v


def sleb_dec(cells):
    n = len(cells)
    v = uleb_dec(cells)
    sign = (cells[-1] >> 6) & 1
    return v - (sign << (7 * n))


def leb_len_is(ctx, cells, n):
    """truth value: the LEB128 starting at cells[0] occupies exactly n bytes"""
    conds = [(cells[i] & 0x80) != 0 for i in range(n - 1)] + [(cells[n - 1] & 0x80) == 0]
    return ctx.land(*conds)


def roundup(v, align):
    return ((v + align - 1) // align) * align
