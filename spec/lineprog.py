"""spec.lineprog - reference line-number state machine, written from DWARF 5 section 6.2
(6.2.2 registers, 6.2.5.1 special opcodes, 6.2.5.2 standard opcodes, 6.2.5.3 extended
opcodes).  Addresses and lines are mathematical integers (no wrap-around), as the
standard does not define overflow.  z3-free."""
from . import enc

REGS = ('address', 'op_index', 'file', 'line', 'column', 'is_stmt', 'basic_block', 'end_sequence',
        'prologue_end', 'epilogue_begin', 'isa', 'discriminator')
BOOLS = ('is_stmt', 'basic_block', 'end_sequence', 'prologue_end', 'epilogue_begin')


def initial(default_is_stmt):
    return dict(address=0, op_index=0, file=1, line=1, column=0, is_stmt=default_is_stmt, basic_block=False,
                end_sequence=False, prologue_end=False, epilogue_begin=False, isa=0, discriminator=0)


class Truncated(Exception):
    pass


class IllFormed(Exception):
    pass


class Reader:
    """forking decoder over a list of (symbolic) bytes"""
    def __init__(self, ctx, cells, pos=0):
        self.ctx = ctx
        self.cells = cells
        self.pos = pos

    def u8(self):
        if self.pos >= len(self.cells):
            raise Truncated()
        b = self.cells[self.pos]
        self.pos += 1
        return b

    def fixed(self, n, little, signed=False):
        if self.pos + n > len(self.cells):
            raise Truncated()
        c = self.cells[self.pos:self.pos + n]
        self.pos += n
        return enc.dec_sint(c, little) if signed else enc.dec_uint(c, little)

    def uleb(self):
        start = self.pos
        while True:
            b = self.u8()
            if self.ctx.fork((b & 0x80) == 0):
                break
        return enc.uleb_dec(self.cells[start:self.pos])

    def sleb(self):
        start = self.pos
        while True:
            b = self.u8()
            if self.ctx.fork((b & 0x80) == 0):
                break
        c = self.cells[start:self.pos]
        # sign decided by forking keeps terms small
        v = enc.uleb_dec(c)
        if self.ctx.fork((c[-1] & 0x40) != 0):
            return v - (1 << (7 * len(c)))
        return v

    def cstring(self):
        start = self.pos
        while True:
            b = self.u8()
            if self.ctx.fork(b == 0):
                break
        return self.cells[start:self.pos - 1]


def advance(ctx, st, hdr, operation_advance):
    """6.2.5.1: advance address/op_index by an operation advance"""
    mo = hdr['maximum_operations_per_instruction']
    total = st['op_index'] + operation_advance
    st['address'] = st['address'] + hdr['minimum_instruction_length'] * (total // mo)
    st['op_index'] = total % mo


def step(ctx, st, hdr, rd, little, addr_size):
    """execute one instruction read from rd on register dict st (mutated).
    -> (kind, row or None, new_file_entry or None); raises Truncated.  After DW_LNE_end_sequence st holds the initial registers."""
    f = ctx.fork
    op = rd.u8()
    row = None
    newfile = None

    def emit():
        r = dict(st)
        st['discriminator'] = 0
        st['basic_block'] = False
        st['prologue_end'] = False
        st['epilogue_begin'] = False
        return r
    if f(op >= hdr['opcode_base']):
        adj = op - hdr['opcode_base']
        advance(ctx, st, hdr, adj // hdr['line_range'])
        st['line'] = st['line'] + hdr['line_base'] + (adj % hdr['line_range'])
        return 'special', emit(), None
    if f(op == 0):
        ln = rd.uleb()
        body_start = rd.pos
        ex = rd.u8()
        if f(ex == 1):
            st['end_sequence'] = True
            row = dict(st)
            st.clear()
            st.update(initial(hdr['default_is_stmt']))
            return 'end_sequence', row, None
        if f(ex == 2):
            st['address'] = rd.fixed(addr_size, little)
            st['op_index'] = 0
            return 'set_address', None, None
        if f(ex == 3):
            name = rd.cstring()
            if not name:
                raise IllFormed('DW_LNE_define_file with an empty name')
            d, m, l = rd.uleb(), rd.uleb(), rd.uleb()
            return 'define_file', None, (name, d, m, l)
        if f(ex == 4):
            st['discriminator'] = rd.uleb()
            return 'set_discriminator', None, None
        # unknown extended opcode: skipped using the declared length
        ln = ctx.concretize(ln)
        if ln < 1:
            raise IllFormed('extended opcode with length 0')
        if body_start + ln > len(rd.cells):
            raise IllFormed('unknown extended opcode reaches beyond the program')
        rd.pos = body_start + ln
        return 'ext_unknown', None, None
    if f(op == 1):
        return 'copy', emit(), None
    if f(op == 2):
        advance(ctx, st, hdr, rd.uleb())
        return 'advance_pc', None, None
    if f(op == 3):
        st['line'] = st['line'] + rd.sleb()
        return 'advance_line', None, None
    if f(op == 4):
        st['file'] = rd.uleb()
        return 'set_file', None, None
    if f(op == 5):
        st['column'] = rd.uleb()
        return 'set_column', None, None
    if f(op == 6):
        st['is_stmt'] = ctx.lnot(ctx.truth(st['is_stmt']))
        return 'negate_stmt', None, None
    if f(op == 7):
        st['basic_block'] = True
        return 'set_basic_block', None, None
    if f(op == 8):
        advance(ctx, st, hdr, (255 - hdr['opcode_base']) // hdr['line_range'])
        return 'const_add_pc', None, None
    if f(op == 9):
        st['address'] = st['address'] + rd.fixed(2, little)
        st['op_index'] = 0
        return 'fixed_advance_pc', None, None
    if f(op == 10):
        st['prologue_end'] = True
        return 'set_prologue_end', None, None
    if f(op == 11):
        st['epilogue_begin'] = True
        return 'set_epilogue_begin', None, None
    if f(op == 12):
        st['isa'] = rd.uleb()
        return 'set_isa', None, None
    return 'std_unknown', None, None


def same_regs(ctx, got, want, label, check):
    """compare a LineState-like object (attributes) with a register dict"""
    for r in REGS:
        g = getattr(got, r)
        w = want[r]
        if r in BOOLS:
            check('%s/%s' % (label, r), ctx.iff(g, w))
        else:
            check('%s/%s' % (label, r), ctx.eq(g, w))
