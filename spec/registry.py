"""spec.registry - parse the vendored independent registries (glibc elf.h, LLVM-14
BinaryFormat/*) into  name -> {value: [sources]}.  z3-free."""
import ast
import os
import re

HERE = os.path.join(os.path.dirname(os.path.dirname(os.path.abspath(__file__))), 'registry')
_cache = {}


def _ev(expr, env):
    """evaluate a C constant expression using names from env; None if not evaluable"""
    e = expr.strip()
    e = re.sub(r'/\*.*?\*/', '', e).strip()
    e = re.sub(r'//.*$', '', e).strip()
    if not e:
        return None
    e = re.sub(r'\b(0[xX][0-9a-fA-F]+|\d+)[uUlL]+\b', r'\1', e)
    e = re.sub(r'\(\s*(unsigned|int|long|Elf\w+|uint\w+)\s*\)', '', e)
    e = re.sub(r"'(.)'", lambda m: str(ord(m.group(1))), e)
    e = re.sub(r'\b0+(\d)', r'\1', e) if re.fullmatch(r'0\d+', e) else e
    try:
        tree = ast.parse(e, mode='eval')
    except SyntaxError:
        return None

    def go(n):
        if isinstance(n, ast.Expression):
            return go(n.body)
        if isinstance(n, ast.Constant) and isinstance(n.value, int):
            return n.value
        if isinstance(n, ast.Name):
            if n.id in env:
                return env[n.id]
            raise KeyError(n.id)
        if isinstance(n, ast.BinOp):
            a, b = go(n.left), go(n.right)
            op = type(n.op)
            if op is ast.Add: return a + b
            if op is ast.Sub: return a - b
            if op is ast.Mult: return a * b
            if op is ast.LShift: return a << b
            if op is ast.RShift: return a >> b
            if op is ast.BitOr: return a | b
            if op is ast.BitAnd: return a & b
            if op is ast.BitXor: return a ^ b
            raise ValueError
        if isinstance(n, ast.UnaryOp):
            a = go(n.operand)
            if isinstance(n.op, ast.USub): return -a
            if isinstance(n.op, ast.Invert): return ~a & 0xffffffff
            if isinstance(n.op, ast.UAdd): return a
        raise ValueError
    try:
        return go(tree)
    except (KeyError, ValueError, TypeError):
        return None


def _add(reg, name, val, src):
    if val is None:
        return
    reg.setdefault(name, {}).setdefault(val, []).append(src)


def parse_glibc(reg):
    env = {}
    src = open(os.path.join(HERE, 'glibc', 'elf.h'), encoding='latin-1').read()
    src = re.sub(r'\\\n', ' ', src)
    for m in re.finditer(r'^#\s*define\s+([A-Za-z_]\w*)[ \t]+(.+)$', src, re.M):
        name, expr = m.group(1), m.group(2)
        v = _ev(expr, env)
        if v is not None:
            env[name] = v
            _add(reg, name, v, 'glibc:elf.h')


def parse_llvm_elf(reg):
    env = {}
    src = open(os.path.join(HERE, 'llvm14', 'ELF.h'), encoding='latin-1').read()
    src = re.sub(r'/\*.*?\*/', '', src, flags=re.S)
    for m in re.finditer(r'^\s*([A-Z][A-Za-z_0-9]*)\s*=\s*([^,\n]+?)\s*,?\s*(//.*)?$', src, re.M):
        name, expr = m.group(1), m.group(2)
        v = _ev(expr, env)
        if v is not None:
            env[name] = v
            _add(reg, name, v, 'llvm14:ELF.h')
    d = os.path.join(HERE, 'llvm14', 'ELFRelocs')
    for fn in sorted(os.listdir(d)):
        s = open(os.path.join(d, fn)).read()
        for m in re.finditer(r'ELF_RELOC\(\s*(\w+)\s*,\s*([^)]+)\)', s):
            _add(reg, m.group(1), _ev(m.group(2), {}), 'llvm14:ELFRelocs/' + fn)
    s = open(os.path.join(HERE, 'llvm14', 'DynamicTags.def')).read()
    for m in re.finditer(r'^\s*(\w*DYNAMIC_TAG(?:_MARKER)?)\(\s*(\w+)\s*,\s*([^)]+)\)', s, re.M):
        _add(reg, 'DT_' + m.group(2), _ev(m.group(3), {}), 'llvm14:DynamicTags.def')


_DWARF_PREFIX = {
    'HANDLE_DW_TAG': 'DW_TAG_', 'HANDLE_DW_AT': 'DW_AT_', 'HANDLE_DW_FORM': 'DW_FORM_', 'HANDLE_DW_OP': 'DW_OP_',
    'HANDLE_DW_LANG': 'DW_LANG_', 'HANDLE_DW_ATE': 'DW_ATE_', 'HANDLE_DW_LNS': 'DW_LNS_', 'HANDLE_DW_LNE': 'DW_LNE_',
    'HANDLE_DW_LNCT': 'DW_LNCT_', 'HANDLE_DW_CFA': 'DW_CFA_', 'HANDLE_DW_UT': 'DW_UT_', 'HANDLE_DW_RLE': 'DW_RLE_',
    'HANDLE_DW_LLE': 'DW_LLE_', 'HANDLE_DW_CC': 'DW_CC_', 'HANDLE_DW_VIRTUALITY': 'DW_VIRTUALITY_',
    'HANDLE_DW_DEFAULTED': 'DW_DEFAULTED_', 'HANDLE_DW_MACRO': 'DW_MACRO_', 'HANDLE_DW_END': 'DW_END_',
    'HANDLE_DW_CFA_PRED': 'DW_CFA_', 'HANDLE_DW_IDX': 'DW_IDX_', 'HANDLE_DW_MACRO_GNU': 'DW_MACRO_GNU_',
}


def parse_llvm_dwarf(reg):
    s = open(os.path.join(HERE, 'llvm14', 'Dwarf.def')).read()
    for m in re.finditer(r'^(HANDLE_DW_\w+)\(\s*(0x[0-9a-fA-F]+|\d+)\s*,\s*(\w+)', s, re.M):
        if m.group(1) in _DWARF_PREFIX:
            _add(reg, _DWARF_PREFIX[m.group(1)] + m.group(3), int(m.group(2), 0), 'llvm14:Dwarf.def')
    s = open(os.path.join(HERE, 'llvm14', 'Dwarf.h')).read()
    s = re.sub(r'/\*.*?\*/', '', s, flags=re.S)
    env = {}
    for m in re.finditer(r'^\s*(DW_[A-Za-z_0-9]+)\s*=\s*([^,\n]+?)\s*,?\s*(//.*)?$', s, re.M):
        v = _ev(m.group(2), env)
        if v is not None:
            env[m.group(1)] = v
            _add(reg, m.group(1), v, 'llvm14:Dwarf.h')


def registry():
    if 'r' not in _cache:
        reg = {}
        parse_glibc(reg)
        parse_llvm_elf(reg)
        parse_llvm_dwarf(reg)
        _cache['r'] = reg
    return _cache['r']


def supplement():
    """extra accepted values with documented provenance (registry/supplement.json)"""
    if 's' not in _cache:
        import json
        with open(os.path.join(HERE, 'supplement.json')) as f:
            _cache['s'] = {k: v['values'] for k, v in json.load(f).items()}
    return _cache['s']


def values(name):
    """set of values some registry assigns to name (empty if no registry defines it)"""
    return set(registry().get(name, {}))


if __name__ == '__main__':
    r = registry()
    print(len(r), 'names')
    multi = {k: v for k, v in r.items() if len(v) > 1}
    print(len(multi), 'names with disagreeing registries:', sorted(multi)[:40])
