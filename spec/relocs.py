"""spec.relocs - relocation formulas of the processor supplements, for the (machine, type)
pairs the statement of C08 lists.  Written from: System V ABI i386 (table "Relocation
Types"), x86-64 psABI 4.4.1, ELF for the Arm Architecture (R_ARM_ABS32), ELF for the Arm
64-bit Architecture (static data relocations), MIPS psABI / MIPS64 ELF object file
specification, 64-bit PowerPC ELF ABI 3.5.3, s390x ELF ABI, LoongArch ELF psABI (laelf).
Notation: S symbol value, A addend (r_addend for RELA, the in-place field for REL),
P place (r_offset), V the in-place field for the add/sub forms.  z3-free."""

# machine -> (e_machine code, arch string the library reports, allowed flavours, {type: (width, formula)})
TABLE = {
    'x86': (3, 'x86', ('REL',), {0: (0, 'none'), 1: (4, 'S+A'), 2: (4, 'S+A-P')}),
    'x64': (62, 'x64', ('RELA',), {0: (0, 'none'), 1: (8, 'S+A'), 2: (4, 'S+A-P'), 10: (4, 'S+A'), 11: (4, 'S+A')}),
    'ARM': (40, 'ARM', ('REL',), {2: (4, 'S+A')}),
    'AArch64': (183, 'AArch64', ('RELA',), {257: (8, 'S+A'), 258: (4, 'S+A'), 261: (4, 'S+A-P')}),
    'MIPS': (8, 'MIPS', ('REL', 'RELA'), {0: (0, 'none'), 2: (4, 'S+A'), 18: (8, 'S+A')}),
    'PPC64': (21, '64-bit PowerPC', ('RELA',), {1: (4, 'S+A'), 26: (4, 'S+A-P'), 38: (8, 'S+A')}),
    'S390x': (22, 'IBM S/390', ('RELA',), {4: (4, 'S+A'), 5: (4, 'S+A-P'), 22: (8, 'S+A')}),
    'LoongArch': (258, 'LoongArch', ('RELA',), {
        0: (0, 'none'), 1: (4, 'S+A'), 2: (8, 'S+A'), 47: (1, 'V+S+A'), 48: (2, 'V+S+A'), 50: (4, 'V+S+A'), 51: (8, 'V+S+A'),
        52: (1, 'V-S-A'), 53: (2, 'V-S-A'), 55: (4, 'V-S-A'), 56: (8, 'V-S-A'), 99: (4, 'S+A-P'), 109: (8, 'S+A-P')}),
}
# MIPS: R_MIPS_64 (18) exists only in the RELA recipe table of the library and in 64-bit objects
MIPS_REL_TYPES = (0, 2)

# types outside the statement's list that the library also implements (not checked, not required to be rejected)
NOT_IN_STATEMENT = {'ARM': (28,)}     # R_ARM_CALL


def compute(formula, S, A, P, V):
    if formula == 'S+A':
        return S + A
    if formula == 'S+A-P':
        return S + A - P
    if formula == 'V+S+A':
        return V + S + A
    if formula == 'V-S-A':
        return V - S - A
    raise ValueError(formula)
