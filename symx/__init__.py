"""symx - symbolic execution of the real pyelftools source on z3-backed proxy values.

core      proxies (SymInt/SymBool/SymBytes/SymStr/SymChoice/SymStream), explorer, shims
loader    AST-instrumenting import hook for `elftools.*` (source read from $VERIF_REPO)
ctx       harness context, symbolic flavour (needs z3)
concrete  harness context, concrete flavour (no z3; used for replay under /venv/bin/python)
runner    sharding, replay, evidence, known findings, CLI
"""
