"""symx.api - z3-free definitions shared by harness modules, the symbolic runner and the
concrete replayer (which runs under /venv/bin/python without z3)."""
import importlib
import json
import os


class H:
    """one harness: fn(ctx) plus the instance list per tier"""
    def __init__(self, name, fn, instances, expect=('ok',), desc='', bounds=None, budget=None, split=True, decoy=0):
        self.name = name
        self.fn = fn
        self.instances = instances          # callable tier -> list of cfg dicts
        self.expect = tuple(expect)         # outcome classes that must be reached (vacuity guard)
        self.desc = desc
        self.bounds = bounds or {}
        self.budget = budget or {}
        self.split = split
        self.decoy = decoy                  # number of instances (or 'all') additionally run after a decoy run of a neighbouring instance


class Unexpected(Exception):
    pass


def lib(name):
    return importlib.import_module('elftools.' + name if name else 'elftools')


class StepBudgetExceeded(BaseException):
    """the library executed more source lines than the step budget its harness set (termination / time checks)"""


class AllocBudgetExceeded(BaseException):
    """the library asked for a sequence larger than the allocation limit its harness set"""


class DecoyStop(Exception):
    """the decoy run cannot continue (an assumption of its instance is not satisfiable on the chosen path); the real run follows"""


def run_harness(h, ctx):
    """run harness h under ctx.  If the instance carries a decoy (cfg['_decoy']), the harness function first runs once on the
    decoy instance with its own, independent inputs (prefix 'decoy.'), silently: no obligations, no outcome, exceptions ignored.
    The library is thus used on a DIFFERENT file/section of the same kind in the same process before the run that is checked:
    whatever the library keeps beyond the objects of one file (class attributes, module-level memo tables, shared parser
    instances) and keys too coarsely shows up as a wrong answer in the checked run."""
    d = ctx.cfg.get('_decoy') if isinstance(ctx.cfg, dict) else None
    if d is not None:
        sub = ctx.decoy_ctx(d)
        ctx.decoy_begin()
        try:
            h.fn(sub)
        except BaseException as e:
            # the decoy may end in any way (error of the library, unsatisfiable assumption of its instance, read budget);
            # engine signals (path abort, engine limit) and interrupts pass through
            if not (isinstance(e, Exception) or type(e).__name__ in ('AssumeFailed', 'ReadBudgetExceeded')):
                raise
        finally:
            ctx.decoy_end()
    return h.fn(ctx)


class ReadBudgetExceeded(BaseException):
    """a stream performed more reads than the budget its harness set (termination checks); BaseException so that no
    `except Exception` of the library or of a harness swallows it"""


def norm(v):
    """JSON-normal form of an observed (concrete) value"""
    if v is None or isinstance(v, (bool, str)):
        return v
    if isinstance(v, int):
        return int(v)
    if isinstance(v, (bytes, bytearray)):
        return {'b': bytes(v).hex()}
    if isinstance(v, (list, tuple)):
        return [norm(x) for x in v]
    if isinstance(v, dict):
        return {'d': sorted(([norm(k), norm(x)] for k, x in v.items()), key=lambda kv: json.dumps(kv[0], sort_keys=True))}
    if isinstance(v, float):
        return {'f': repr(v)}
    return {'o': type(v).__name__}


def exc_label(ex):
    """stable label for an unexpected exception: type and innermost elftools function"""
    tb = ex.__traceback__
    where = '?'
    while tb is not None:
        fn = tb.tb_frame.f_code.co_filename
        if (os.sep + 'elftools' + os.sep) in fn:
            where = tb.tb_frame.f_code.co_name
        tb = tb.tb_next
    return 'exc:%s@%s' % (type(ex).__name__, where)


class CtxBase:
    symbolic = False

    prefix = ''
    mute = False

    def decoy_begin(self):
        pass

    def decoy_end(self):
        pass

    def __init__(self, cfg):
        self.cfg = cfg
        self._outcome = None
        self.obs = []
        self.failures = []
        self.nchecks = 0

    def lib(self, name=''):
        return lib(name)

    def steps_begin(self, limit):
        """count the source lines executed inside the library from now on (both in the symbolic run and in the replay);
        StepBudgetExceeded is raised in the library code once more than `limit` were executed"""
        import sys
        state = {'n': 0}
        self._steps = state

        def local(frame, event, arg):
            if event == 'line':
                state['n'] += 1
                if state['n'] > limit:
                    sys.settrace(None)
                    raise StepBudgetExceeded(state['n'])
            return local

        def tracer(frame, event, arg):
            if '/elftools/' not in frame.f_code.co_filename:
                return None
            return local
        self._prev_trace = sys.gettrace()
        sys.settrace(tracer)

    def steps_end(self):
        import sys
        sys.settrace(getattr(self, '_prev_trace', None))
        return getattr(self, '_steps', {'n': 0})['n']

    def track(self, stream):
        """remember a stream the library reads from, so that drain() can move it"""
        if not hasattr(self, '_streams'):
            self._streams = []
        self._streams.append(stream)
        return stream

    def walk(self, make):
        """drain(make()) after an earlier walk over the same holder that was abandoned after its first item (the usual "find the first
        X and break" loop): whatever a generator keeps on its holder while it runs must not change what a later, complete walk yields"""
        it = iter(make())
        try:
            next(it)
        except StopIteration:
            pass
        except Exception:
            pass            # the complete walk below meets the same error
        del it
        return self.drain(make())

    def drain(self, iterable):
        """list(iterable), but between two steps of the iterator every tracked stream is left at an arbitrary position (one
        symbolic position per drain): an iterator must not rely on where the shared stream was left while it was suspended,
        the caller may use the file for anything in the loop body"""
        n = self._ndrain = getattr(self, '_ndrain', 0) + 1
        pos = None
        out = []
        it = iter(iterable)
        while True:
            try:
                x = next(it)
            except StopIteration:
                break
            out.append(x)
            if len(out) > 20000:
                raise Unexpected('iterator yielded more than 20000 items (it does not end)')
            streams = [st for st in getattr(self, '_streams', []) if not getattr(st, 'closed', False)]
            if streams and pos is None:
                pos = self.int_range('drain%d.pos' % n, 0, 4095)
            for st in streams:
                st.seek(pos)
        return out

    def outcome(self, label):
        self._outcome = label

    def observe(self, name, value):
        if not self.mute:
            self.obs.append((name, value))

    def check_eq(self, label, got, want):
        self.observe(label, got)
        return self.check(label, self.eq(got, want))

    def implies(self, a, b):
        return self.lor(self.lnot(a), b)

    def iff(self, a, b):
        return self.eq(self.truth(a), self.truth(b))

    def eq(self, a, b):
        """deep equality as a truth value, no forking"""
        if a is None or b is None:
            return a is b
        if isinstance(a, (list, tuple)) and isinstance(b, (list, tuple)):
            if len(a) != len(b):
                return False
            return self.land(*[self.eq(x, y) for x, y in zip(a, b)])
        if isinstance(a, dict) and isinstance(b, dict):
            if set(a.keys()) != set(b.keys()):
                return False
            return self.land(*[self.eq(a[k], b[k]) for k in a])
        return a == b
