"""symx.concrete - concrete harness context: the same harness function runs on the plain,
un-instrumented library with the solver's values (replay, witness validation).  No z3."""
import io
from .api import CtxBase


class ConCtx(CtxBase):
    symbolic = False

    def __init__(self, cfg, inputs):
        CtxBase.__init__(self, cfg)
        self.inputs = inputs
        self.missing = []

    def alloc_begin(self, limit):
        import tracemalloc
        self._alloc_limit = limit
        tracemalloc.start()
        tracemalloc.reset_peak()
        self._alloc_base = tracemalloc.get_traced_memory()[0]

    def alloc_end(self):
        """-> True if the peak of traced allocations since alloc_begin exceeded the limit"""
        import tracemalloc
        if not tracemalloc.is_tracing():
            return False
        peak = tracemalloc.get_traced_memory()[1] - self._alloc_base
        tracemalloc.stop()
        return peak > self._alloc_limit

    def decoy_ctx(self, dcfg):
        sub = ConCtx(dcfg, self.inputs)
        sub.prefix = 'decoy.'
        sub.mute = True
        sub.missing = self.missing
        return sub

    def _get(self, name, default=0):
        name = self.prefix + name
        if name in self.inputs:
            return self.inputs[name]
        self.missing.append(name)
        return default

    def uint(self, name, bits): return int(self._get(name))
    def sint(self, name, bits): return int(self._get(name))
    def byte(self, name): return int(self._get(name))
    def bytes(self, name, n): return [int(self._get('%s[%d]' % (name, i))) for i in range(n)]

    def int_range(self, name, lo, hi):
        v = int(self._get(name, lo))
        return v

    def bool(self, name): return bool(self._get(name, 0))

    def choice(self, name, objs):
        return objs[int(self._get(name))]

    def assume(self, cond):
        if not cond:
            raise AssumeFailed()

    def check(self, label, cond):
        if self.mute:
            return True
        self.nchecks += 1
        if not cond:
            self.failures.append(label)
            return False
        return True

    def fork(self, cond): return bool(cond)
    def truth(self, x): return bool(x)
    def ite(self, c, a, b): return a if c else b
    def lnot(self, a): return not a

    def land(self, *cs):
        for c in cs:
            if not c:
                return False
        return True

    def lor(self, *cs):
        for c in cs:
            if c:
                return True
        return False

    def stream(self, items, pos=0, merge_reads=False):
        s = io.BytesIO(bytes(items))
        s.seek(pos)
        return self.track(s)

    def mkbytes(self, items): return bytes(items)
    def concretize(self, x): return x
    def is_sym(self, x): return False

    def select(self, lst, i):
        return lst[i]

    def fmt(self, f, *vals):
        return f % tuple(vals)

    def alternatives(self, x):
        return [(True, x)]

    def table_get(self, d, k):
        return d[k]

    def use_zlib_model(self, pairs):
        """replay: the plain library runs with zlib replaced by the same contract model (zlib is environment)"""
        import types
        from .zmodel import Model, error
        from .api import lib
        m = Model(bytes)
        for comp, plain in pairs:
            m.register(comp, plain)
        import zlib as _z
        fake = types.SimpleNamespace(decompressobj=m.decompressobj, error=error, MAX_WBITS=_z.MAX_WBITS,
                                     decompress=lambda d, *a, **k: m.decompressobj().decompress(d))
        for modname in ('elf.sections', 'elf.elffile'):
            mod = lib(modname)
            if not hasattr(mod, '_real_zlib'):
                mod._real_zlib = mod.zlib
            mod.zlib = fake

    def use_crc_model(self, value):
        import types
        from .api import lib
        mod = lib('dwarf.dwarf_util')
        if not hasattr(mod, '_real_binascii'):
            mod._real_binascii = mod.binascii
        mod.binascii = types.SimpleNamespace(crc32=(lambda data, crc=0: value)) if value is not None else mod._real_binascii

    def loose_text(self, flag=True):
        pass

    def unsigned_div(self, a, b): return a // b


class AssumeFailed(BaseException):
    pass
