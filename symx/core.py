"""symx.core - proxy values over z3 bit-vectors, path explorer, environment stubs.

Python `int` semantics are kept exact: every SymInt carries a conservative
interval [lo, hi] and its term is a *signed* bit-vector exactly wide enough for
that interval, so no operation can overflow.  Anything the engine cannot model
raises EngineLimit (a BaseException: library code catches Exception) and the
obligation is reported inconclusive, never as success.
"""
import io as _io
import struct as _struct
import time
import z3

LIMIT_BITS = 600
CONC_CAP = 64          # max values when a symbolic value has to become concrete (fork by value)
MAX_DECISIONS = 4000   # per path
SOLVER_TIMEOUT_MS = 20000
import os as _os
FRESH_QFBV = bool(_os.environ.get('SYMX_FRESH'))
# z3 resource limits instead of wall-clock timeouts: deterministic, and no timer threads (check() with a short
# 'timeout' was seen to hang forever inside z3 5.1 after ~16000 calls)
INCR_SLICE_RLIMIT = int(_os.environ.get('SYMX_SLICE', '400000'))
FRESH_AFTER = int(_os.environ.get('SYMX_FRESH_AFTER', '3'))
LOOSE_DECODE = False
FRESH_RLIMIT = 30000000        # ~10 s of z3 work; beyond it the obligation is reported inconclusive


class EngineLimit(BaseException):
    pass


class PathAbort(BaseException):
    """current path is infeasible / excluded by an assumption"""
    pass


# ----------------------------------------------------------------------------
# explorer
# ----------------------------------------------------------------------------
class Explorer:
    def __init__(self):
        self.solver = z3.Solver()
        self.solver.set('rlimit', INCR_SLICE_RLIMIT)
        self.fresh_mode = FRESH_QFBV
        self.fallbacks = 0
        self.worklist = []
        self.no_alternatives = False
        self.decisions = []
        self.pos = 0
        self.pc = []
        self.known = {}
        self.model = None
        self.nq = 0
        self.tq = 0.0
        self.paths = 0
        self.ndec = 0
        self.unknowns = 0
        self.conc_cap = CONC_CAP
        self.path_budget_s = 60
        self.path_t0 = time.time()
        self.max_decisions = MAX_DECISIONS
        self.slow = []          # (seconds, tag) of slow queries

    # -- solver plumbing -------------------------------------------------------
    def reset_path(self, prefix):
        self.decisions = list(prefix)
        self.pos = 0
        self.pc = []
        self.known = {}
        self.model = None
        self.path_t0 = time.time()
        # a new solver object per path: Solver.reset() was seen to leave z3 in a state where a trivial check() never returns
        self.solver = z3.Solver()
        self.solver.set('rlimit', INCR_SLICE_RLIMIT)

    def add(self, c):
        self.solver.add(c)
        self.pc.append(c)          # keeps the AST alive, so ids in self.known stay unique
        if z3.is_not(c):
            self.known[c.arg(0).get_id()] = False
        else:
            self.known[c.get_id()] = True
        if self.model is not None:
            try:
                if not z3.is_true(self.model.eval(c, model_completion=True)):
                    self.model = None
            except z3.Z3Exception:
                self.model = None

    def _check_fresh(self, extra):
        """one-shot bit-blasting solver on a copy of the path condition: far faster than the incremental core on
        arithmetic-heavy queries (measured 20x on 64-bit containment arithmetic), slower on many tiny ones"""
        s2 = z3.SolverFor('QF_BV')
        s2.set('rlimit', FRESH_RLIMIT)
        s2.add(*self.pc)
        s2.add(*extra)
        try:
            r = s2.check()
        except z3.Z3Exception:
            r = z3.unknown
        if r == z3.sat:
            self._last_model = s2.model()
            if not extra:
                self.model = self._last_model
        return r

    def check(self, *extra):
        t = time.time()
        if t - self.path_t0 > self.path_budget_s:
            raise EngineLimit('path exceeds its wall-time budget of %ds' % self.path_budget_s)
        if self.fresh_mode:
            r = self._check_fresh(extra)
        else:
            r = self.solver.check(*extra)
            if r == z3.unknown:
                # the incremental core runs under a short time slice; hard queries go to the one-shot solver
                self.fallbacks += 1
                if self.fallbacks >= FRESH_AFTER:
                    self.fresh_mode = True
                r = self._check_fresh(extra)
            elif r == z3.sat:
                self._last_model = self.solver.model()
                if not extra:
                    self.model = self._last_model
        dt = time.time() - t
        self.tq += dt
        self.nq += 1
        if dt > 1.0:
            self.slow.append(round(dt, 2))
        if r == z3.unknown:
            self.unknowns += 1
        return r

    def last_model(self):
        return self._last_model

    def model_eval_bool(self, cond):
        if self.model is None:
            return None
        try:
            v = self.model.eval(cond, model_completion=True)
        except z3.Z3Exception:
            return None
        if z3.is_true(v):
            return True
        if z3.is_false(v):
            return False
        return None

    def get_model(self):
        """a model of the current path condition (None if infeasible/unknown)"""
        if self.model is not None:
            return self.model
        r = self.check()
        if r == z3.sat:
            return self.model
        return None

    # -- decisions ---------------------------------------------------------------
    def _note_decision(self):
        self.ndec += 1
        if self.pos > self.max_decisions:
            raise EngineLimit('path exceeds %d decisions' % self.max_decisions)

    def branch(self, cond):
        cond = z3.simplify(cond)
        if z3.is_true(cond):
            return True
        if z3.is_false(cond):
            return False
        if self.pos < len(self.decisions):
            d = self.decisions[self.pos]
            if d[0] != 'b':
                raise EngineLimit('replay divergence (expected branch, got %r)' % (d[0],))
            self.pos += 1
            self._note_decision()
            self.add(cond if d[1] else z3.Not(cond))
            return d[1]
        # syntactically already decided on this path (same simplified term, or its negation): no solver call, but the
        # decision is still recorded - whether this cache hits depends on z3's term ordering and must not shift the vector
        k = self.known.get(cond.get_id())
        if k is None and z3.is_not(cond):
            k = self.known.get(cond.arg(0).get_id())
            if k is not None:
                k = not k
        if k is not None:
            self.decisions = self.decisions[:self.pos] + [('b', k)]
            self.pos += 1
            self._note_decision()
            return k
        mv = self.model_eval_bool(cond)
        ncond = z3.Not(cond)
        if self.no_alternatives:
            # decoy run: follow the current model (or any feasible side), do not queue the other side
            if mv is None:
                r1 = self.check(cond)
                mv = (r1 == z3.sat)
                if not mv:
                    self.model = None
            self.decisions = self.decisions[:self.pos] + [('b', mv)]
            self.pos += 1
            self._note_decision()
            self.add(cond if mv else ncond)
            return mv
        if mv is True:
            ct = True
            saved = self.model
            r = self.check(ncond)
            cf = r != z3.unsat
            self.model = saved
        elif mv is False:
            cf = True
            saved = self.model
            r = self.check(cond)
            ct = r != z3.unsat
            self.model = saved
        else:
            r1 = self.check(cond)
            m1 = self._last_model if r1 == z3.sat else None
            ct = r1 != z3.unsat
            r2 = self.check(ncond)
            cf = r2 != z3.unsat
            if ct and m1 is not None:
                self.model = m1
            else:
                self.model = None
        if ct and cf:
            self.worklist.append(self.decisions[:self.pos] + [('b', False)])
            d = True
        elif ct:
            d = True
        elif cf:
            d = False
        else:
            raise PathAbort('infeasible')
        self.decisions = self.decisions[:self.pos] + [('b', d)]
        self.pos += 1
        self._note_decision()
        self.add(cond if d else ncond)
        return d

    def concretize(self, e, cap=None):
        """fork over all feasible values of bit-vector term e; returns signed python int"""
        cap = cap or self.conc_cap
        e = z3.simplify(e)
        if z3.is_bv_value(e):
            return e.as_signed_long()
        w = e.size()
        excl = []
        if self.pos < len(self.decisions):
            d = self.decisions[self.pos]
            if d[0] == 'v':
                self.pos += 1
                self._note_decision()
                self.add(e == z3.BitVecVal(d[1], w))
                return d[1]
            if d[0] != 'x':
                raise EngineLimit('replay divergence (expected value, got %r)' % (d[0],))
            excl = list(d[1])
            for v in excl:
                self.add(e != z3.BitVecVal(v, w))
        if len(excl) >= cap:
            raise EngineLimit('more than %d feasible values for a value that must be concrete' % cap)
        m = self.get_model()
        if m is None:
            raise PathAbort('infeasible')
        v = m.eval(e, model_completion=True).as_signed_long()
        c = e == z3.BitVecVal(v, w)
        if not self.no_alternatives:
            saved = self.model
            r = self.check(z3.Not(c))
            self.model = saved
            if r != z3.unsat:
                self.worklist.append(self.decisions[:self.pos] + [('x', excl + [v])])
        self.decisions = self.decisions[:self.pos] + [('v', v)]
        self.pos += 1
        self._note_decision()
        self.add(c)
        return v

    def assume(self, cond):
        if isinstance(cond, bool):
            if not cond:
                raise PathAbort('assume false')
            return
        cond = z3.simplify(cond)
        if z3.is_true(cond):
            return
        if z3.is_false(cond):
            raise PathAbort('assume false')
        self.add(cond)
        if self.model is None:
            r = self.check()
            if r == z3.unsat:
                raise PathAbort('assume infeasible')


EX = Explorer()


def set_explorer(ex):
    global EX
    EX = ex


# ----------------------------------------------------------------------------
# integers
# ----------------------------------------------------------------------------
def bits_for(lo, hi):
    """smallest signed width holding [lo, hi]"""
    w = max(lo.bit_length() if lo >= 0 else (~lo).bit_length(),
            hi.bit_length() if hi >= 0 else (~hi).bit_length()) + 1
    if w > LIMIT_BITS:
        raise EngineLimit('interval too wide (%d bits)' % w)
    return w


def ext(e, w):
    cw = e.size()
    if cw == w:
        return e
    if cw < w:
        return z3.SignExt(w - cw, e)
    return z3.Extract(w - 1, 0, e)


def _triple(x):
    """-> (term or None, lo, hi) or NotImplemented"""
    t = type(x)
    if t is SymInt:
        return x.e, x.lo, x.hi
    if t is int:
        return None, x, x
    if t is bool:
        return None, int(x), int(x)
    if t is SymBool:
        return z3.If(x.e, z3.BitVecVal(1, 2), z3.BitVecVal(0, 2)), 0, 1
    if isinstance(x, int):
        x = int(x)
        return None, x, x
    return NotImplemented


def _term(t, lo, w):
    return z3.BitVecVal(lo, w) if t is None else ext(t, w)


def mk(e, lo, hi):
    """SymInt (or int if constant) from a term valid in [lo, hi]"""
    if lo == hi:
        return lo
    w = bits_for(lo, hi)
    e = z3.simplify(ext(e, w))
    if z3.is_bv_value(e):
        return e.as_signed_long()
    return SymInt(e, lo, hi)


def as_term(x, w):
    t = _triple(x)
    if t is NotImplemented:
        raise EngineLimit('not an integer: %r' % type(x))
    return _term(t[0], t[1], w)


def width_of(x):
    t = _triple(x)
    return bits_for(t[1], t[2])


class SymBool:
    __slots__ = ('e',)

    def __init__(self, e):
        self.e = e

    def __bool__(self):
        return EX.branch(self.e)

    def __and__(self, o):
        if type(o) is SymBool:
            return mkbool(z3.And(self.e, o.e))
        if type(o) is bool:
            return self if o else False
        return _int_of_bool(self).__and__(o)

    __rand__ = __and__

    def __or__(self, o):
        if type(o) is SymBool:
            return mkbool(z3.Or(self.e, o.e))
        if type(o) is bool:
            return True if o else self
        return _int_of_bool(self).__or__(o)

    __ror__ = __or__

    def __xor__(self, o):
        if type(o) is SymBool:
            return mkbool(z3.Xor(self.e, o.e))
        if type(o) is bool:
            return mkbool(z3.Not(self.e)) if o else self
        return _int_of_bool(self).__xor__(o)

    __rxor__ = __xor__

    def __invert__(self):   # logical not (engine convention; bool's ~ is never used by the library)
        return mkbool(z3.Not(self.e))

    def __eq__(self, o):
        if type(o) is SymBool:
            return mkbool(self.e == o.e)
        if type(o) is bool:
            return self if o else mkbool(z3.Not(self.e))
        return _int_of_bool(self) == o

    def __ne__(self, o):
        r = self.__eq__(o)
        return lnot(r)

    def __hash__(self):
        return hash(bool(self))

    def __index__(self):
        return int(bool(self))

    def __int__(self):
        return int(bool(self))

    def __add__(self, o): return _int_of_bool(self) + o
    def __radd__(self, o): return o + _int_of_bool(self)
    def __sub__(self, o): return _int_of_bool(self) - o
    def __rsub__(self, o): return o - _int_of_bool(self)
    def __mul__(self, o): return _int_of_bool(self) * o
    def __rmul__(self, o): return o * _int_of_bool(self)
    def __lshift__(self, o): return _int_of_bool(self) << o
    def __lt__(self, o): return _int_of_bool(self) < o
    def __le__(self, o): return _int_of_bool(self) <= o
    def __gt__(self, o): return _int_of_bool(self) > o
    def __ge__(self, o): return _int_of_bool(self) >= o

    def __repr__(self):
        return '<symbool>'

    def __copy__(self): return self
    def __deepcopy__(self, memo): return self


def _int_of_bool(b):
    return SymInt(z3.If(b.e, z3.BitVecVal(1, 2), z3.BitVecVal(0, 2)), 0, 1)


def mkbool(e):
    e = z3.simplify(e)
    if z3.is_true(e):
        return True
    if z3.is_false(e):
        return False
    return SymBool(e)


def zb(c):
    """python/Sym truth value -> z3 Bool without forking"""
    t = type(c)
    if t is SymBool:
        return c.e
    if t is SymInt:
        return c.e != 0
    if t in (SymBytes, SymStr):
        return z3.BoolVal(len(c) > 0)
    return z3.BoolVal(bool(c))


def lnot(c):
    if type(c) is SymBool:
        return mkbool(z3.Not(c.e))
    if type(c) is SymInt:
        return mkbool(c.e == 0)
    return not c


def land(*cs):
    out = []
    for c in cs:
        if type(c) in (SymBool, SymInt):
            out.append(zb(c))
        elif not c:
            return False
    if not out:
        return True
    return mkbool(z3.And(*out))


def lor(*cs):
    out = []
    for c in cs:
        if type(c) in (SymBool, SymInt):
            out.append(zb(c))
        elif c:
            return True
    if not out:
        return False
    return mkbool(z3.Or(*out))


class SymInt:
    __slots__ = ('e', 'lo', 'hi')

    def __init__(self, e, lo, hi):
        self.e = e
        self.lo = lo
        self.hi = hi

    def __copy__(self): return self
    def __deepcopy__(self, memo): return self

    def _bin(self, o, f, ival, r=False):
        t = _triple(o)
        if t is NotImplemented:
            return NotImplemented
        a = (self.e, self.lo, self.hi)
        b = t
        if r:
            a, b = b, a
        lo, hi = ival(a[1], a[2], b[1], b[2])
        wc = max(bits_for(lo, hi), bits_for(a[1], a[2]), bits_for(b[1], b[2]))
        return mk(f(_term(a[0], a[1], wc), _term(b[0], b[1], wc)), lo, hi)

    @staticmethod
    def _iv_add(al, ah, bl, bh): return al + bl, ah + bh
    @staticmethod
    def _iv_sub(al, ah, bl, bh): return al - bh, ah - bl
    @staticmethod
    def _iv_mul(al, ah, bl, bh):
        c = [al * bl, al * bh, ah * bl, ah * bh]
        return min(c), max(c)
    @staticmethod
    def _iv_and(al, ah, bl, bh):
        if al >= 0 and bl >= 0: return 0, min(ah, bh)
        if al >= 0: return 0, ah
        if bl >= 0: return 0, bh
        k = max(bits_for(al, ah), bits_for(bl, bh))
        return -(1 << k), (1 << k) - 1
    @staticmethod
    def _iv_or(al, ah, bl, bh):
        if al >= 0 and bl >= 0:
            return max(al, bl), (1 << max(ah.bit_length(), bh.bit_length())) - 1
        k = max(bits_for(al, ah), bits_for(bl, bh))
        return -(1 << k), (1 << k) - 1
    @staticmethod
    def _iv_xor(al, ah, bl, bh):
        if al >= 0 and bl >= 0:
            return 0, (1 << max(ah.bit_length(), bh.bit_length())) - 1
        k = max(bits_for(al, ah), bits_for(bl, bh))
        return -(1 << k), (1 << k) - 1
    @staticmethod
    def _iv_shl(al, ah, bl, bh):
        if bh > 520: raise EngineLimit('shift count too large')
        if bl < 0: bl = 0
        c = [al << bl, al << bh, ah << bl, ah << bh]
        return min(c), max(c)
    @staticmethod
    def _iv_shr(al, ah, bl, bh):
        if bl < 0: bl = 0
        bh = min(bh, 4096)
        bl = min(bl, 4096)
        c = [al >> bl, al >> bh, ah >> bl, ah >> bh]
        return min(c), max(c)

    def __add__(s, o): return s._bin(o, lambda a, b: a + b, SymInt._iv_add)
    def __radd__(s, o): return s._bin(o, lambda a, b: a + b, SymInt._iv_add, True)
    def __sub__(s, o): return s._bin(o, lambda a, b: a - b, SymInt._iv_sub)
    def __rsub__(s, o): return s._bin(o, lambda a, b: a - b, SymInt._iv_sub, True)
    def __mul__(s, o):
        if isinstance(o, (bytes, str, list, tuple, SymBytes)):
            return o * s.__index__()
        return s._bin(o, lambda a, b: a * b, SymInt._iv_mul)
    def __rmul__(s, o):
        if isinstance(o, (bytes, str, list, tuple, SymBytes)):
            return o * s.__index__()
        return s._bin(o, lambda a, b: a * b, SymInt._iv_mul, True)
    def __and__(s, o): return s._bin(o, lambda a, b: a & b, SymInt._iv_and)
    def __rand__(s, o): return s._bin(o, lambda a, b: a & b, SymInt._iv_and, True)
    def __or__(s, o): return s._bin(o, lambda a, b: a | b, SymInt._iv_or)
    def __ror__(s, o): return s._bin(o, lambda a, b: a | b, SymInt._iv_or, True)
    def __xor__(s, o): return s._bin(o, lambda a, b: a ^ b, SymInt._iv_xor)
    def __rxor__(s, o): return s._bin(o, lambda a, b: a ^ b, SymInt._iv_xor, True)

    def _shift(self, o, r, left):
        t = _triple(o)
        if t is NotImplemented:
            return NotImplemented
        a = (self.e, self.lo, self.hi)
        b = t
        if r:
            a, b = b, a
        if b[1] < 0:
            # python raises ValueError on a negative count
            if b[0] is None or bool(mkbool(_term(b[0], b[1], bits_for(b[1], b[2])) < 0)):
                raise ValueError('negative shift count')
            b = (b[0], 0, b[2])
        if left:
            lo, hi = SymInt._iv_shl(a[1], a[2], b[1], b[2])
        else:
            lo, hi = SymInt._iv_shr(a[1], a[2], b[1], b[2])
        wc = max(bits_for(lo, hi), bits_for(a[1], a[2]), bits_for(b[1], b[2]))
        A = _term(a[0], a[1], wc)
        B = _term(b[0], b[1], wc)
        return mk((A << B) if left else (A >> B), lo, hi)

    def __lshift__(s, o): return s._shift(o, False, True)
    def __rlshift__(s, o): return s._shift(o, True, True)
    def __rshift__(s, o): return s._shift(o, False, False)
    def __rrshift__(s, o): return s._shift(o, True, False)

    def _divmod(self, o, r, want):
        t = _triple(o)
        if t is NotImplemented:
            return NotImplemented
        a = (self.e, self.lo, self.hi)
        b = t
        if r:
            a, b = b, a
        bl, bh = b[1], b[2]
        if bl <= 0 <= bh:
            if b[0] is None:
                raise ZeroDivisionError('integer division or modulo by zero')
            bt = _term(b[0], b[1], bits_for(bl, bh))
            if bool(mkbool(bt == 0)):
                raise ZeroDivisionError('integer division or modulo by zero')
            if bl < 0 < bh:
                if bool(mkbool(bt > 0)):
                    bl = 1
                else:
                    bh = -1
            elif bl == 0:
                bl = 1
            else:
                bh = -1
        al, ah = a[1], a[2]
        if al >= 0 and bl > 0:
            if want == 'div':
                lo, hi = al // bh, ah // bl
            else:
                lo, hi = 0, min(ah, bh - 1)
            wc = max(bits_for(al, ah), bits_for(bl, bh)) + 1
            A, B = _term(a[0], al, wc), _term(b[0], b[1], wc)
            # constant power-of-two divisors: shifts/masks are much cheaper for the solver
            if b[0] is None and (bl & (bl - 1)) == 0:
                k = bl.bit_length() - 1
                if want == 'div':
                    return mk(z3.LShR(A, z3.BitVecVal(k, wc)), lo, hi)
                return mk(A & z3.BitVecVal(bl - 1, wc), lo, hi)
            return mk(z3.UDiv(A, B) if want == 'div' else z3.URem(A, B), lo, hi)
        m = max(abs(al), abs(ah)) + 1
        mb = max(abs(bl), abs(bh)) + 1
        wc = max(bits_for(-m, m), bits_for(-mb, mb)) + 1
        A, B = _term(a[0], al, wc), _term(b[0], b[1], wc)
        q = A / B           # signed, truncating
        rem = z3.SRem(A, B)
        adj = z3.And(rem != 0, (rem < 0) != (B < 0))
        if want == 'div':
            return mk(z3.If(adj, q - 1, q), -m, m)
        return mk(z3.If(adj, rem + B, rem), -mb, mb)

    def __floordiv__(s, o): return s._divmod(o, False, 'div')
    def __rfloordiv__(s, o): return s._divmod(o, True, 'div')
    def __mod__(s, o): return s._divmod(o, False, 'mod')
    def __rmod__(s, o):
        if isinstance(o, (str, bytes)):
            return sx_mod(o, s)
        return s._divmod(o, True, 'mod')
    def __divmod__(s, o): return (s // o, s % o)

    def __truediv__(s, o):
        if type(o) is int and o > 0 and (o & (o - 1)) == 0 and -(1 << 53) < s.lo and s.hi < (1 << 53):
            return SymRatio(s, o)
        raise EngineLimit('float division')

    def __pow__(s, o):
        if type(o) is int and 0 <= o <= 4:
            r = 1
            for _ in range(o):
                r = r * s
            return r
        raise EngineLimit('pow')

    def __rpow__(s, o):
        if o == 2:
            return 1 << s
        raise EngineLimit('pow')

    def __neg__(s):
        w = bits_for(-s.hi, -s.lo) + 1
        return mk(-ext(s.e, w), -s.hi, -s.lo)

    def __invert__(s):
        w = bits_for(-s.hi - 1, -s.lo - 1) + 1
        return mk(~ext(s.e, w), -s.hi - 1, -s.lo - 1)

    def __pos__(s): return s

    def __abs__(s):
        if s.lo >= 0:
            return s
        m = max(abs(s.lo), abs(s.hi))
        w = bits_for(-m, m) + 1
        e = ext(s.e, w)
        return mk(z3.If(e < 0, -e, e), 0, m)

    def _cmp(s, o, f, pf):
        t = _triple(o)
        if t is NotImplemented:
            return NotImplemented
        r = pf(s.lo, s.hi, t[1], t[2])
        if r is not None:
            return r
        wc = max(bits_for(s.lo, s.hi), bits_for(t[1], t[2]))
        return mkbool(f(ext(s.e, wc), _term(t[0], t[1], wc)))

    def __eq__(s, o):
        r = s._cmp(o, lambda a, b: a == b, lambda al, ah, bl, bh: False if (ah < bl or bh < al) else None)
        return False if r is NotImplemented else r
    def __ne__(s, o):
        r = s._cmp(o, lambda a, b: a != b, lambda al, ah, bl, bh: True if (ah < bl or bh < al) else None)
        return True if r is NotImplemented else r
    def __lt__(s, o): return s._cmp(o, lambda a, b: a < b, lambda al, ah, bl, bh: True if ah < bl else (False if al >= bh else None))
    def __le__(s, o): return s._cmp(o, lambda a, b: a <= b, lambda al, ah, bl, bh: True if ah <= bl else (False if al > bh else None))
    def __gt__(s, o): return s._cmp(o, lambda a, b: a > b, lambda al, ah, bl, bh: True if al > bh else (False if ah <= bl else None))
    def __ge__(s, o): return s._cmp(o, lambda a, b: a >= b, lambda al, ah, bl, bh: True if al >= bh else (False if ah < bl else None))

    def __bool__(s):
        return EX.branch(s.e != 0)

    def concretize(s, cap=None):
        return EX.concretize(s.e, cap)

    def __index__(s): return s.concretize()
    def __int__(s): return s.concretize()
    def __hash__(s): return hash(s.concretize())
    def __float__(s): raise EngineLimit('float() of a symbolic int')
    def __round__(s, *a): return s
    def __trunc__(s): return s
    def __repr__(s): return '<sym>'
    def __str__(s): return '<sym>'
    def __format__(s, spec): return '<sym>'

    def bit_length(s):
        raise EngineLimit('bit_length of a symbolic int')

    def to_bytes(s, length, byteorder='big', signed=False):
        length = int(length)
        if not signed and s.lo < 0:
            if bool(s < 0):
                raise OverflowError("can't convert negative int to unsigned")
        items = [(s >> (8 * i)) & 0xff for i in range(length)]
        top = s >> (8 * length)
        if signed:
            ok = lor(land(top == 0, (s >> (8 * length - 1)) & 1 == 0), land(top == -1, (s >> (8 * length - 1)) & 1 == 1)) if length else (s == 0)
        else:
            ok = (top == 0)
        if not ok:
            raise OverflowError('int too big to convert')
        if byteorder == 'big':
            items = items[::-1]
        return mkbytes(items)


class SymRatio:
    """exact x / 2^k with |x| < 2^53: only int() (truncation) is supported"""
    def __init__(self, num, den):
        self.num = num
        self.den = den


def fresh_uint(name, bits):
    v = z3.BitVec(name, bits)
    return SymInt(z3.ZeroExt(1, v), 0, (1 << bits) - 1), v


def fresh_sint(name, bits):
    v = z3.BitVec(name, bits)
    return SymInt(v, -(1 << (bits - 1)), (1 << (bits - 1)) - 1), v


def ite(c, a, b):
    """value-level if-then-else without forking (ints, bools, SymBytes of equal length, equal objects)"""
    tc = type(c)
    if tc is SymInt:
        c = c != 0
        tc = type(c)
    if tc is not SymBool:
        return a if c else b
    if a is b:
        return a
    ta, tb = _triple(a), _triple(b)
    if isinstance(a, (bool, SymBool)) and isinstance(b, (bool, SymBool)):
        return mkbool(z3.If(c.e, zb(a), zb(b)))
    if ta is not NotImplemented and tb is not NotImplemented:
        lo, hi = min(ta[1], tb[1]), max(ta[2], tb[2])
        w = bits_for(lo, hi)
        return mk(z3.If(c.e, _term(ta[0], ta[1], w), _term(tb[0], tb[1], w)), lo, hi)
    if isinstance(a, (bytes, SymBytes)) and isinstance(b, (bytes, SymBytes)) and len(a) == len(b):
        return mkbytes([ite(c, x, y) for x, y in zip(a, b)])
    if isinstance(a, (list, tuple)) and isinstance(b, (list, tuple)) and len(a) == len(b) and type(a) is type(b):
        return type(a)(ite(c, x, y) for x, y in zip(a, b))
    if type(a) is type(b) and not is_sym(a):
        try:
            if a == b:
                return a
        except Exception:
            pass
    # generic: choice among objects
    return SymChoice.from_ite(c, a, b)


# ----------------------------------------------------------------------------
# bytes / str
# ----------------------------------------------------------------------------
class SymBytes:
    """byte string with concrete length whose cells are ints or SymInts (0..255)"""
    __slots__ = ('items',)

    def __init__(self, items):
        self.items = list(items)

    def __copy__(self): return self
    def __deepcopy__(self, memo): return self
    def __len__(self): return len(self.items)
    def __iter__(self): return iter(self.items)
    def __bool__(self): return len(self.items) > 0
    __hash__ = None

    def __getitem__(self, i):
        if isinstance(i, slice):
            return mkbytes(self.items[_conc_slice(i)])
        if type(i) is SymInt:
            return sym_list_get(self.items, i)
        return self.items[i]

    def _cmp_eq(self, o):
        if isinstance(o, (bytes, bytearray, SymBytes)):
            o = list(o)
            if len(o) != len(self.items):
                return False
            return land(*[(a == b) for a, b in zip(self.items, o)])
        return NotImplemented

    def __eq__(self, o):
        r = self._cmp_eq(o)
        return False if r is NotImplemented else r

    def __ne__(self, o):
        r = self._cmp_eq(o)
        return True if r is NotImplemented else lnot(r)

    def __add__(self, o):
        if isinstance(o, (bytes, bytearray, SymBytes)):
            return mkbytes(self.items + list(o))
        return NotImplemented

    def __radd__(self, o):
        if isinstance(o, (bytes, bytearray, SymBytes)):
            return mkbytes(list(o) + self.items)
        return NotImplemented

    def __mul__(self, n):
        return mkbytes(self.items * int(n))

    def __contains__(self, x):
        if isinstance(x, (bytes, SymBytes)):
            return self.find(x) >= 0
        return bool(lor(*[(b == x) for b in self.items]))

    def find(self, sub, start=0, end=None):
        if isinstance(sub, int) or type(sub) is SymInt:
            sub = [sub]
        sub = list(sub)
        n = len(self.items) if end is None else min(end, len(self.items))
        for i in range(start, n - len(sub) + 1):
            if land(*[(self.items[i + k] == sub[k]) for k in range(len(sub))]):
                return i
        return -1

    def index(self, sub, *a):
        r = self.find(sub, *a)
        if r < 0:
            raise ValueError('subsection not found')
        return r

    def startswith(self, p):
        if isinstance(p, tuple):
            return any(self.startswith(x) for x in p)
        p = list(p)
        if len(p) > len(self.items):
            return False
        return bool(land(*[(a == b) for a, b in zip(self.items, p)]))

    def endswith(self, p):
        p = list(p)
        if len(p) > len(self.items):
            return False
        if not p:
            return True
        return bool(land(*[(a == b) for a, b in zip(self.items[-len(p):], p)]))

    def rstrip(self, chars=None):
        if chars is None:
            raise EngineLimit('rstrip() of symbolic bytes')
        chars = list(chars)
        n = len(self.items)
        while n > 0 and lor(*[(self.items[n - 1] == c) for c in chars]):
            n -= 1
        return mkbytes(self.items[:n])

    def split(self, sep=None, maxsplit=-1):
        if sep is None or len(sep) != 1:
            raise EngineLimit('split() of symbolic bytes')
        out, cur = [], []
        for b in self.items:
            if (maxsplit < 0 or len(out) < maxsplit) and (b == sep[0]):
                out.append(mkbytes(cur))
                cur = []
            else:
                cur.append(b)
        out.append(mkbytes(cur))
        return out

    def decode(self, encoding='utf-8', errors='strict'):
        enc = encoding.lower().replace('_', '-')
        if enc in ('latin-1', 'latin1', 'iso-8859-1'):
            return SymStr(self.items)
        if enc in ('utf-8', 'utf8', 'ascii'):
            if land(*[(b < 0x80) for b in self.items]):
                return SymStr(self.items)
            if LOOSE_DECODE and errors == 'replace':
                # harnesses that never look at the text (C19 termination) may ask for an approximation:
                # every non-ASCII byte becomes U+FFFD (exact only for invalid single bytes)
                return SymStr([ite(b < 0x80, b, 0xfffd) for b in self.items])
            raise EngineLimit('decode of non-ASCII symbolic bytes (outside claim)')
        raise EngineLimit('decode(%s) of symbolic bytes' % encoding)

    def hex(self, *a):
        return bytes(int(b) for b in self.items).hex(*a)

    def concretize(self):
        return bytes(int(b) for b in self.items)

    def __repr__(self):
        return '<symbytes %d>' % len(self.items)


def _conc_slice(s):
    def c(x):
        return x.__index__() if type(x) is SymInt else x
    return slice(c(s.start), c(s.stop), c(s.step))


def mkbytes(items):
    items = list(items)
    for x in items:
        if type(x) is not int:
            break
    else:
        return bytes(items)
    if all(isinstance(x, int) and not isinstance(x, bool) for x in items):
        return bytes(items)
    return SymBytes(items)


class SymStr:
    """string with concrete length whose code points are ints or SymInts"""
    __slots__ = ('items',)

    def __init__(self, items):
        self.items = list(items)

    def __copy__(self): return self
    def __deepcopy__(self, memo): return self
    def __len__(self): return len(self.items)
    def __bool__(self): return len(self.items) > 0

    def _cmp_eq(self, o):
        if isinstance(o, str):
            o = [ord(ch) for ch in o]
        elif type(o) is SymStr:
            o = o.items
        else:
            return NotImplemented
        if len(o) != len(self.items):
            return False
        return land(*[(a == b) for a, b in zip(self.items, o)])

    def __eq__(self, o):
        r = self._cmp_eq(o)
        return False if r is NotImplemented else r

    def __ne__(self, o):
        r = self._cmp_eq(o)
        return True if r is NotImplemented else lnot(r)

    def concretize(self):
        return ''.join(chr(int(c)) for c in self.items)

    def __hash__(self): return hash(self.concretize())
    def __str__(self): return '<symstr>'
    def __repr__(self): return '<symstr %d>' % len(self.items)
    def __format__(self, spec): return '<symstr>'

    def encode(self, encoding='utf-8', errors='strict'):
        enc = encoding.lower().replace('_', '-')
        if enc in ('latin-1', 'latin1', 'iso-8859-1'):
            return mkbytes(self.items)
        if land(*[(b < 0x80) for b in self.items]):
            return mkbytes(self.items)
        raise EngineLimit('encode of non-ASCII symbolic str')

    def __getitem__(self, i):
        if isinstance(i, slice):
            return mkstr(self.items[_conc_slice(i)])
        return mkstr([self.items[i]])

    def __add__(self, o):
        if isinstance(o, str):
            return mkstr(self.items + [ord(c) for c in o])
        if type(o) is SymStr:
            return mkstr(self.items + o.items)
        return NotImplemented

    def __radd__(self, o):
        if isinstance(o, str):
            return mkstr([ord(c) for c in o] + self.items)
        return NotImplemented

    def startswith(self, p):
        if isinstance(p, tuple):
            return any(self.startswith(x) for x in p)
        p = [ord(c) for c in p]
        if len(p) > len(self.items):
            return False
        return bool(land(*[(a == b) for a, b in zip(self.items, p)]))


def mkstr(items):
    items = list(items)
    if all(type(x) is int for x in items):
        return ''.join(chr(x) for x in items)
    return SymStr(items)



class SymText:
    """text produced by %-formatting with symbolic numbers: literal pieces and (spec, value) slots.
    Equality with another SymText is structural (same literals, same specs, values equal -> SymBool)."""
    __slots__ = ('parts',)

    def __init__(self, parts):
        out = []
        for p in parts:
            if isinstance(p, str) and out and isinstance(out[-1], str):
                out[-1] += p
            elif p != '':
                out.append(p)
        self.parts = out

    def __copy__(self): return self
    def __deepcopy__(self, memo): return self

    def _cmp_eq(self, o):
        if isinstance(o, str):
            o = SymText([o])
        if type(o) is not SymText:
            return NotImplemented
        if len(self.parts) != len(o.parts):
            return False
        conds = []
        for a, b in zip(self.parts, o.parts):
            if isinstance(a, str) or isinstance(b, str):
                if a != b:
                    return False
            else:
                if a[0] != b[0]:
                    return False
                conds.append(a[1] == b[1])
        return land(*conds)

    def __eq__(self, o):
        r = self._cmp_eq(o)
        return False if r is NotImplemented else r

    def __ne__(self, o):
        r = self._cmp_eq(o)
        return True if r is NotImplemented else lnot(r)

    def __add__(self, o):
        if isinstance(o, str):
            return SymText(self.parts + [o])
        if type(o) is SymText:
            return SymText(self.parts + o.parts)
        return NotImplemented

    def __radd__(self, o):
        if isinstance(o, str):
            return SymText([o] + self.parts)
        return NotImplemented

    def render(self, f):
        return ''.join(p if isinstance(p, str) else (p[0] % f(p[1])) for p in self.parts)

    def __str__(self): return ''.join(p if isinstance(p, str) else '<sym>' for p in self.parts)
    __repr__ = __str__
    def __format__(self, spec): return str(self)
    def __hash__(self): return hash(str(self))
    def __len__(self): return len(str(self))


_FMT_RE = None


def sym_format(a, args):
    """a % args with symbolic ints among args -> SymText (or None if the format is not understood)"""
    global _FMT_RE
    import re
    if _FMT_RE is None:
        _FMT_RE = re.compile(r'%(?:[#0\- +]*)(?:\d+)?(?:\.\d+)?[diouxXcrsa%]')
    parts = []
    pos = 0
    ai = 0
    for m in _FMT_RE.finditer(a):
        parts.append(a[pos:m.start()])
        pos = m.end()
        spec = m.group(0)
        if spec == '%%':
            parts.append('%')
            continue
        if ai >= len(args):
            return None
        v = args[ai]
        ai += 1
        if type(v) is SymInt and spec[-1] in 'diouxX':
            parts.append((spec.replace('u', 'd') if spec[-1] == 'u' else spec, v))
        elif type(v) is SymText:
            if spec != '%s':
                return None
            parts += v.parts
        elif is_sym(v):
            parts.append('<sym>')
        else:
            parts.append(spec % (v,))
    parts.append(a[pos:])
    if ai != len(args):
        return None
    return SymText(parts)

# ----------------------------------------------------------------------------
# choice among concrete objects
# ----------------------------------------------------------------------------
class SymChoice:
    """symbolic choice among finitely many python objects; e is a BV index"""
    __slots__ = ('e', 'objs')
    W = 16

    def __init__(self, e, objs):
        self.e = e
        self.objs = objs

    def __copy__(self): return self
    def __deepcopy__(self, memo): return self

    @staticmethod
    def build(pairs, default_obj=None):
        """pairs: [(z3 Bool cond, obj)] checked in order; last resort default_obj"""
        objs = []

        def idx(o):
            for i, a in enumerate(objs):
                if a is o or (type(a) is type(o) and not is_sym(a) and a == o):
                    return i
            objs.append(o)
            return len(objs) - 1
        e = z3.BitVecVal(idx(default_obj if default_obj is not None or not pairs else pairs[-1][1]), SymChoice.W)
        for c, o in reversed(pairs):
            e = z3.If(c, z3.BitVecVal(idx(o), SymChoice.W), e)
        e = z3.simplify(e)
        if z3.is_bv_value(e):
            return objs[e.as_long()]
        if len(objs) == 1:
            return objs[0]
        return SymChoice(e, objs)

    @staticmethod
    def from_ite(c, a, b):
        pa = a.alts() if type(a) is SymChoice else [(z3.BoolVal(True), a)]
        pb = b.alts() if type(b) is SymChoice else [(z3.BoolVal(True), b)]
        pairs = [(z3.And(c.e, ca), oa) for ca, oa in pa] + [(z3.And(z3.Not(c.e), cb), ob) for cb, ob in pb]
        return SymChoice.build(pairs)

    def alts(self):
        return [(self.e == i, o) for i, o in enumerate(self.objs)]

    def _eq(self, o):
        if type(o) is SymChoice:
            conds = [z3.And(self.e == i, o.e == j) for i, a in enumerate(self.objs)
                     for j, b in enumerate(o.objs) if type(a) is type(b) and a == b]
            return mkbool(z3.Or(*conds)) if conds else False
        if is_sym(o):
            # SymInt etc. against a choice of concrete objects
            conds = []
            for i, a in enumerate(self.objs):
                r = (o == a)
                if type(r) is SymBool:
                    conds.append(z3.And(self.e == i, r.e))
                elif r is True:
                    conds.append(self.e == i)
            return mkbool(z3.Or(*conds)) if conds else False
        idx = []
        for i, a in enumerate(self.objs):
            try:
                if (type(a) is type(o) or (isinstance(a, (int, str, bytes)) and isinstance(o, type(a)))) and a == o:
                    idx.append(i)
            except Exception:
                pass
        if not idx:
            return False
        return mkbool(z3.Or(*[self.e == i for i in idx]))

    def __eq__(self, o): return self._eq(o)
    def __ne__(self, o): return lnot(self._eq(o))

    def concretize(self):
        i = EX.concretize(self.e, cap=max(EX.conc_cap, len(self.objs) + 1))
        return self.objs[i]

    def map(self, f):
        """apply f to every alternative (no fork); result is a choice / merged value"""
        vals = [f(o) for o in self.objs]
        return merge_values([(self.e == i) for i in range(len(vals))], vals)

    def __hash__(self): return hash(self.concretize())
    def __str__(self): return str(self.concretize())
    def __repr__(self): return '<choice/%d>' % len(self.objs)
    def __format__(self, spec): return '<choice>'
    def __bool__(self): return bool(self.concretize())
    def __index__(self): return self.concretize().__index__()

    def __getattr__(self, name):
        if name.startswith('__'):
            raise AttributeError(name)
        return getattr(self.concretize(), name)

    # container / callable protocol: decide which object it is (fork), then delegate
    def __getitem__(self, k): return sx_getitem(self.concretize(), k)
    def __call__(self, *a, **kw): return self.concretize()(*a, **kw)
    def __iter__(self): return iter(self.concretize())
    def __len__(self): return len(self.concretize())
    def __contains__(self, x): return x in self.concretize()


def merge_values(conds, vals):
    """if-then-else over (cond_i -> val_i); conds are z3 Bools assumed exhaustive"""
    if not vals:
        raise EngineLimit('empty merge')
    if all(isinstance(v, int) and not isinstance(v, bool) or type(v) is SymInt for v in vals):
        tr = [_triple(v) for v in vals]
        lo = min(t[1] for t in tr)
        hi = max(t[2] for t in tr)
        w = bits_for(lo, hi)
        e = _term(tr[-1][0], tr[-1][1], w)
        for c, t in list(zip(conds, tr))[-2::-1]:
            e = z3.If(c, _term(t[0], t[1], w), e)
        return mk(e, lo, hi)
    if all(isinstance(v, (bool, SymBool)) for v in vals):
        e = zb(vals[-1])
        for c, v in list(zip(conds, vals))[-2::-1]:
            e = z3.If(c, zb(v), e)
        return mkbool(e)
    if all(isinstance(v, (bytes, SymBytes)) for v in vals) and len(set(len(v) for v in vals)) == 1:
        n = len(vals[0])
        return mkbytes([merge_values(conds, [v[k] for v in vals]) for k in range(n)])
    pairs = []
    for c, v in zip(conds, vals):
        if type(v) is SymChoice:
            pairs += [(z3.And(c, ca), oa) for ca, oa in v.alts()]
        elif is_sym(v):
            raise EngineLimit('cannot merge heterogeneous symbolic values')
        else:
            pairs.append((c, v))
    return SymChoice.build(pairs)


def is_sym(x):
    return type(x) in _SYMTYPES


# ----------------------------------------------------------------------------
# table lookups with symbolic keys (merged, not forked)
# ----------------------------------------------------------------------------
def sym_list_get(lst, i):
    n = len(lst)
    if n == 0:
        raise IndexError('list index out of range')
    if i.lo < 0:
        if bool(i < 0):
            return lst[i.concretize()]
    if i.hi >= n:
        if bool(i >= n):
            raise IndexError('list index out of range')
    lo = max(i.lo, 0)
    hi = min(i.hi, n - 1)
    if hi - lo + 1 > 4096:
        raise EngineLimit('symbolic index over %d cells' % (hi - lo + 1))
    idxs = list(range(lo, hi + 1))
    vals = [lst[k] for k in idxs]
    homog = all((isinstance(v, int) and not isinstance(v, bool)) or type(v) is SymInt for v in vals) \
        or all(isinstance(v, (bytes, SymBytes)) for v in vals) and len(set(len(v) for v in vals)) == 1
    if not homog and any(is_sym(v) or isinstance(v, (list, dict)) for v in vals):
        return lst[i.concretize(cap=max(EX.conc_cap, 64))]
    conds = [(i == k) for k in idxs]
    return merge_values([zb(c) for c in conds], vals)


def sym_dict_get(d, k):
    """d[k] for concrete dict d and symbolic int key k: fork once on membership"""
    keys = [key for key in d if (isinstance(key, int) and not isinstance(key, bool) and k.lo <= key <= k.hi) or type(key) is SymInt]
    if not keys:
        raise KeyError(k)
    vals = [d[key] for key in keys]
    r = _closed_form_lookup(keys, vals, k)
    if r is not None:
        return r
    conds = [(k == key) for key in keys]
    inside = lor(*conds)
    if not inside:
        raise KeyError(k)
    return merge_values([zb(c) for c in conds], vals)


def _closed_form_lookup(keys, vals, k):
    """tables over a complete key range whose cells are simple functions of the key (construct's 256-entry
    byte -> bit-string table, 0/1 -> 0/1 maps): return shift/mask terms instead of a deep if-then-else chain"""
    if any(type(key) is not int for key in keys):
        return None
    if k.lo < 0 or k.hi - k.lo + 1 > 4096 or len(keys) > 65536:
        return None
    ks = sorted(keys)
    if ks[-1] - ks[0] + 1 != len(ks) or ks[0] > k.lo or ks[-1] < k.hi:
        return None          # some feasible key value might be missing: membership must be forked on
    lut = dict(zip(keys, vals))
    dom = list(range(k.lo, k.hi + 1))

    def column(col):
        if all(c == col[0] for c in col):
            return col[0]
        if all(c == key for c, key in zip(col, dom)):
            return k
        if all(c in (0, 1) for c in col):
            for s in range(max(k.hi.bit_length(), 1)):
                if all(c == ((key >> s) & 1) for c, key in zip(col, dom)):
                    return (k >> s) & 1
        return None
    v0 = lut[dom[0]]
    if all(type(lut[x]) is int for x in dom):
        return column([lut[x] for x in dom])
    if all(isinstance(lut[x], bytes) and len(lut[x]) == len(v0) for x in dom):
        cells = []
        for p in range(len(v0)):
            c = column([lut[x][p] for x in dom])
            if c is None:
                return None
            cells.append(c)
        return mkbytes(cells)
    return None


def sym_contains(c, x):
    if isinstance(c, (dict, set, frozenset)):
        keys = [key for key in c if (isinstance(key, int) and not isinstance(key, bool)) or type(key) is SymInt]
        return lor(*[(x == key) for key in keys])
    if isinstance(c, (list, tuple, range)):
        if isinstance(c, range) and c.step == 1:
            return land(x >= c.start, x < c.stop)
        return lor(*[(x == key) for key in c])
    raise EngineLimit('membership of a symbolic value in %r' % type(c))


# ----------------------------------------------------------------------------
# stream model (io.BytesIO contract)
# ----------------------------------------------------------------------------
SSIZE_MAX = (1 << 63) - 1


class SymStream:
    def __init__(self, data=b'', pos=0, merge_reads=False, name='stream'):
        self.data = list(data)
        self.pos = pos
        self.merge_reads = merge_reads
        self.name = name
        self.closed = False
        self.reads = 0
        self.read_budget = None

    # file-like surface
    def seekable(self): return True
    def readable(self): return True
    def writable(self): return True
    def close(self): self.closed = True
    def flush(self): pass
    def __enter__(self): return self
    def __exit__(self, *a): self.close()
    def fileno(self): raise _io.UnsupportedOperation('fileno')

    def getvalue(self):
        return mkbytes(self.data)

    def getbuffer(self):
        return mkbytes(self.data)

    def tell(self):
        return self.pos

    def seek(self, off, whence=0):
        if type(off) is SymBool:
            off = _int_of_bool(off)
        if not isinstance(off, int) and type(off) is not SymInt:
            raise TypeError("'%s' object cannot be interpreted as an integer" % type(off).__name__)
        if off > SSIZE_MAX or off < -SSIZE_MAX - 1:
            raise OverflowError("cannot fit 'int' into an index-sized integer")
        if whence == 0:
            if off < 0:
                raise ValueError('negative seek value %s' % off)
            self.pos = off
        elif whence == 1:
            np = self.pos + off
            if np > SSIZE_MAX:
                raise OverflowError('new position too large')
            self.pos = ite(np < 0, 0, np)
        elif whence == 2:
            np = len(self.data) + off
            if np > SSIZE_MAX:
                raise OverflowError('new position too large')
            self.pos = ite(np < 0, 0, np)
        else:
            raise ValueError('invalid whence (%r, should be 0, 1 or 2)' % (whence,))
        return self.pos

    def read(self, n=-1):
        self.reads += 1
        if self.read_budget is not None and self.reads > self.read_budget:
            from symx.api import ReadBudgetExceeded
            raise ReadBudgetExceeded(self.reads)
        size = len(self.data)
        if type(n) is SymBool:
            n = _int_of_bool(n)
        if n is not None and not isinstance(n, int) and type(n) is not SymInt:
            raise TypeError("argument should be integer or None, not '%s'" % type(n).__name__)
        if n is not None and (n > SSIZE_MAX or n < -SSIZE_MAX - 1):
            raise OverflowError("cannot fit 'int' into an index-sized integer")
        if n is None or n < 0:
            n = size
        p = self.pos
        if type(p) is not SymInt and type(n) is not SymInt:
            r = self.data[p:p + n]
            self.pos = p + len(r)
            return mkbytes(r)
        # symbolic position and/or count
        if p >= size:
            return b''
        if type(n) is SymInt:
            avail = ite(n < size - p, n, size - p)
            if type(avail) is SymInt:
                avail = avail.concretize(cap=max(EX.conc_cap, size + 1))
            n = avail
            if n == 0:
                return b''
        if type(p) is not SymInt:
            r = self.data[p:p + n]
            self.pos = p + len(r)
            return mkbytes(r)
        if p + n <= size:
            if self.merge_reads:
                lo = max(p.lo, 0)
                hi = min(p.hi, size - n)
                if hi - lo + 1 <= 2048:
                    conds = [zb(p == k) for k in range(lo, hi + 1)]
                    out = [merge_values(conds, [self.data[k + j] for k in range(lo, hi + 1)]) for j in range(n)]
                    self.pos = p + n
                    return mkbytes(out)
            pc = p.concretize(cap=max(EX.conc_cap, size + 1))
            r = self.data[pc:pc + n]
            self.pos = pc + n
            return mkbytes(r)
        pc = p.concretize(cap=max(EX.conc_cap, size + 1))
        r = self.data[pc:pc + n]
        self.pos = pc + len(r)
        return mkbytes(r)

    def write(self, b):
        p = self.pos
        if type(p) is SymInt:
            p = p.concretize(cap=max(EX.conc_cap, len(self.data) + 1))
        b = list(b)
        if p > len(self.data):
            self.data.extend([0] * (p - len(self.data)))
        self.data[p:p + len(b)] = b
        self.pos = p + len(b)
        return len(b)


# ----------------------------------------------------------------------------
# shims used by the instrumented source
# ----------------------------------------------------------------------------
def sx_getitem(o, k):
    tk = type(k)
    if tk is SymInt:
        if isinstance(o, dict):
            return sym_dict_get(o, k)
        if isinstance(o, (list, tuple)):
            return sym_list_get(o, k)
        if isinstance(o, bytes):
            return sym_list_get(list(o), k)
        return o[k]
    if tk is SymChoice and isinstance(o, (dict, list, tuple)):
        def look(key):
            return o[key]
        try:
            return k.map(look)
        except (KeyError, IndexError, TypeError, EngineLimit):
            return o[k.concretize()]
    if tk is slice and (type(k.start) is SymInt or type(k.stop) is SymInt or type(k.step) is SymInt):
        return o[_conc_slice(k)]
    return o[k]


def sx_setitem(o, k, v):
    if type(k) is SymInt and isinstance(o, dict):
        k = k.concretize()
    elif type(k) is SymChoice and isinstance(o, dict):
        k = k.concretize()
    o[k] = v


def sx_contains(c, x):
    tx = type(x)
    if tx is SymInt:
        if isinstance(c, (dict, set, frozenset, list, tuple, range)):
            return sym_contains(c, x)
        if isinstance(c, (bytes, SymBytes)):
            return lor(*[(b == x) for b in c])
        return x in c
    if tx is SymChoice:
        if isinstance(c, (dict, set, frozenset, list, tuple)):
            return x.map(lambda o: o in c)
        return x.concretize() in c
    if tx is SymBytes:
        if isinstance(c, (bytes, SymBytes)):
            return SymBytes(list(c)).find(x) >= 0
        if isinstance(c, (list, tuple, set, frozenset, dict)):
            return lor(*[(x == key) for key in c if isinstance(key, (bytes, SymBytes))])
    if tx is SymStr:
        if isinstance(c, (list, tuple, set, frozenset, dict)):
            return lor(*[(x == key) for key in c if isinstance(key, (str, SymStr))])
        return x.concretize() in c
    if type(c) is SymStr or type(c) is SymChoice:
        return x in c.concretize()
    return x in c


_FMT_SUB = None


ALLOC_LIMIT = [None]


def sx_mul(a, b):
    """a * b; a sequence repeated n times is an allocation request of len * n items: checked against the allocation limit a
    harness may set (termination / resource checks), for every feasible n when n is symbolic"""
    lim = ALLOC_LIMIT[0]
    if lim is not None:
        seq, n = (a, b) if isinstance(a, (bytes, bytearray, str, list, tuple)) else ((b, a) if isinstance(b, (bytes, bytearray, str, list, tuple)) else (None, None))
        if seq is not None and len(seq):
            if type(n) is SymInt:
                if n * len(seq) > lim:          # forks: on the feasible side the request exceeds the limit
                    from symx.api import AllocBudgetExceeded
                    raise AllocBudgetExceeded('%d x n' % len(seq))
            elif isinstance(n, int) and n * len(seq) > lim:
                from symx.api import AllocBudgetExceeded
                raise AllocBudgetExceeded(n * len(seq))
    return a * b


def sx_mod(a, b):
    if isinstance(a, (str, bytes)) and not isinstance(a, SymStr):
        def ren(v):
            return '<sym>' if is_sym(v) else v
        if isinstance(b, tuple):
            if any(is_sym(v) for v in b):
                if isinstance(a, str):
                    r = sym_format(a, b)
                    if r is not None:
                        return r
                return _loose_fmt(a) % tuple(ren(v) for v in b)
        elif isinstance(b, dict):
            if any(is_sym(v) for v in b.values()):
                return _loose_fmt(a) % {k: ren(v) for k, v in b.items()}
        elif is_sym(b):
            if isinstance(a, str):
                r = sym_format(a, (b,))
                if r is not None:
                    return r
            return _loose_fmt(a) % ('<sym>',)
    return a % b


def _loose_fmt(a):
    import re
    if isinstance(a, bytes):
        return re.sub(rb'%(\([^)]*\))?[#0\- +]*[0-9*]*(\.[0-9*]+)?[diouxXeEfFgGcrsa]', rb'%\1s', a)
    return re.sub(r'%(\([^)]*\))?[#0\- +]*[0-9*]*(\.[0-9*]+)?[diouxXeEfFgGcrsa]', r'%\1s', a)


def sx_callm(o, name, *args, **kw):
    if name == 'get' and isinstance(o, dict) and args:
        k = args[0]
        if type(k) is SymInt:
            try:
                return sym_dict_get(o, k)
            except KeyError:
                return args[1] if len(args) > 1 else None
        if type(k) is SymChoice:
            dflt = args[1] if len(args) > 1 else None
            try:
                return k.map(lambda key: o.get(key, dflt))
            except EngineLimit:
                return o.get(k.concretize(), dflt)
    elif name == 'join' and isinstance(o, (bytes, str)):
        parts = list(args[0])
        if any(type(p) in (SymBytes, SymStr) for p in parts):
            if len(o) == 0 or len(parts) <= 1:
                out = []
                for p in parts:
                    out.extend(p.items if type(p) in (SymBytes, SymStr) else (list(p) if isinstance(p, bytes) else [ord(c) for c in p]))
                return mkbytes(out) if isinstance(o, bytes) else mkstr(out)
            raise EngineLimit('join with separator on symbolic parts')
        if any(type(p) is SymText for p in parts) and isinstance(o, str):
            out = []
            for i, p in enumerate(parts):
                if i:
                    out.append(o)
                out += p.parts if type(p) is SymText else [str(p) if not is_sym(p) else '<sym>']
            return SymText(out)
        if any(is_sym(p) for p in parts):
            parts = [('<sym>' if is_sym(p) else p) for p in parts]
        return o.join(parts)
    elif name == 'from_bytes' and o is int:
        data = args[0]
        if type(data) is SymBytes:
            order = args[1] if len(args) > 1 else kw.get('byteorder', 'big')
            signed = kw.get('signed', False)
            items = data.items if order == 'big' else data.items[::-1]
            v = 0
            for it in items:
                v = (v << 8) | it
            if signed and items:
                bits = 8 * len(items)
                v = (v ^ (1 << (bits - 1))) - (1 << (bits - 1))
            return v
    elif name in ('startswith', 'endswith') and isinstance(o, (bytes, str)) and args and type(args[0]) in (SymBytes, SymStr):
        w = SymBytes(list(o)) if isinstance(o, bytes) else SymStr([ord(c) for c in o])
        return getattr(w, name)(args[0].items if isinstance(o, bytes) else args[0])
    elif name == 'index' and isinstance(o, (list, tuple)) and args and is_sym(args[0]):
        for i, v in enumerate(o):
            if v == args[0]:
                return i
        raise ValueError('not in list')
    elif name == 'format' and isinstance(o, str):
        if any(is_sym(a) for a in args) or any(is_sym(v) for v in kw.values()):
            # keep format errors faithful: choices become concrete (fork), symbolic numbers are tried with a dummy value
            def dummy(v):
                t = type(v)
                if t is SymChoice:
                    return v.concretize()
                if t is SymInt:
                    return 0
                if t is SymBool:
                    return False
                if t is SymBytes:
                    return bytes(len(v))
                if t in (SymStr, SymText):
                    return 'x' * len(v)
                return v
            args2 = [dummy(a) for a in args]
            kw2 = {k: dummy(v) for k, v in kw.items()}
            if not any(is_sym(a) for a in args2) and not any(is_sym(v) for v in kw2.values()) and \
                    not any(type(a) in (SymInt, SymBool, SymBytes, SymStr, SymText) for a in list(args) + list(kw.values())):
                return o.format(*args2, **kw2)
            o.format(*args2, **kw2)       # raises what the real call would raise
            return '<fmt>'
    elif name == 'pop' and isinstance(o, dict) and args and type(args[0]) is SymInt:
        return o.pop(args[0].concretize(), *args[1:])
    return getattr(o, name)(*args, **kw)


def sx_int(x=0, *a, **kw):
    t = type(x)
    if t is SymRatio:
        if x.num.lo >= 0:
            return x.num // x.den
        raise EngineLimit('int() of a possibly negative ratio')
    if t is SymInt:
        return x
    if t is SymBool:
        return _int_of_bool(x)
    if t is SymChoice:
        return int(x.concretize(), *a, **kw)
    return int(x, *a, **kw)


def _typeset(t):
    return t if isinstance(t, tuple) else (t,)


def sx_isinstance(x, t):
    tx = type(x)
    if tx is SymInt:
        ts = _typeset(t)
        return int in ts or object in ts
    if tx is SymBool:
        ts = _typeset(t)
        return bool in ts or int in ts or object in ts
    if tx is SymBytes:
        ts = _typeset(t)
        return bytes in ts or object in ts
    if tx is SymStr:
        ts = _typeset(t)
        return str in ts or object in ts
    if tx is SymChoice:
        rs = [isinstance(o, t) for o in x.objs]
        if all(rs):
            return True
        if not any(rs):
            return False
        return lor(*[mkbool(x.e == i) for i, r in enumerate(rs) if r])
    if tx is SymStream:
        ts = _typeset(t)
        return _io.BytesIO in ts or _io.IOBase in ts or _io.BufferedIOBase in ts or object in ts or SymStream in ts
    return isinstance(x, t)


def sx_ord(x):
    if type(x) is SymBytes or type(x) is SymStr:
        if len(x) != 1:
            raise TypeError('ord() expected a character')
        return x.items[0]
    return ord(x)


def sx_bytes(*a, **kw):
    if a:
        x = a[0]
        if type(x) is SymBytes:
            return x
        if isinstance(x, (list, tuple)) and any(type(i) is SymInt for i in x):
            return SymBytes(x)
        if type(x) is SymInt:
            return bytes(x.__index__())
    return bytes(*a, **kw)


def sx_bytearray(*a, **kw):
    if a and type(a[0]) is SymBytes:
        return list(a[0].items)      # iteration-only uses (hash functions)
    if a and type(a[0]) is SymStr:
        return list(a[0].encode(*(a[1:] or ('utf-8',))))
    return bytearray(*a, **kw)


def sx_range(*a):
    if not any(type(x) is SymInt for x in a):
        return range(*a)
    if len(a) == 1:
        start, stop, step = 0, a[0], 1
    elif len(a) == 2:
        start, stop, step = a[0], a[1], 1
    else:
        start, stop, step = a
    if type(step) is SymInt:
        step = step.concretize()
    if step == 0:
        raise ValueError('range() arg 3 must not be zero')

    def gen():
        i = start
        while (i < stop) if step > 0 else (i > stop):
            yield i
            i = i + step
    return gen()


def sx_BytesIO(*a, **kw):
    if a and type(a[0]) is SymBytes:
        return SymStream(a[0].items)
    if not a and not kw:
        return SymStream([])          # an empty stream may be written with symbolic data later
    return _io.BytesIO(*a, **kw)


def sx_chr(x):
    if type(x) is SymInt:
        return SymStr([x])
    return chr(x)


def sx_str(*a, **kw):
    if a and type(a[0]) is SymBytes and len(a) > 1:
        return a[0].decode(*a[1:], **kw)
    if a and type(a[0]) in (SymStr, SymText):
        return a[0]
    return str(*a, **kw)


def sx_len(x):
    return len(x)


def sx_type(*a):
    if len(a) == 1:
        t = type(a[0])
        if t is SymInt:
            return int
        if t is SymBytes:
            return bytes
        if t is SymStr:
            return str
        if t is SymBool:
            return bool
        if t is SymChoice:
            return type(a[0].concretize())
    return type(*a)


def sx_sum(it, start=0):
    r = start
    for x in it:
        r = r + x
    return r


BUILTIN_SHIMS = {
    'int': sx_int, 'isinstance': sx_isinstance, 'ord': sx_ord, 'bytes': sx_bytes,
    'bytearray': sx_bytearray, 'range': sx_range, 'BytesIO': sx_BytesIO, 'chr': sx_chr,
    'str': sx_str, 'type': sx_type, 'sum': sx_sum,
}


# ----------------------------------------------------------------------------
# struct stub
# ----------------------------------------------------------------------------
_FMT_SIZES = {'b': 1, 'B': 1, 'h': 2, 'H': 2, 'i': 4, 'I': 4, 'l': 4, 'L': 4, 'q': 8, 'Q': 8, 'x': 1, 'c': 1}


def _parse_fmt(fmt):
    if isinstance(fmt, bytes):
        fmt = fmt.decode()
    native = None
    if fmt and (fmt[0] == '@' or fmt[0] not in '<>!='):
        # native mode (no prefix or '@'): host byte order and host sizes; only single-item formats, where alignment padding cannot occur
        body = fmt[1:] if fmt[0] == '@' else fmt
        if len(body) != 1 or body not in _FMT_SIZES or body in 'xc':
            raise EngineLimit('native-mode struct format with more than one item: %r' % fmt)
        import sys
        native = _struct.calcsize(body)
        return ('<' if sys.byteorder == 'little' else '>'), [(body, native)]
    if not fmt:
        raise EngineLimit('empty struct format')
    end = '<' if fmt[0] == '<' else '>'
    if fmt[0] == '=':
        import sys
        end = '<' if sys.byteorder == 'little' else '>'
    out = []
    num = ''
    for ch in fmt[1:]:
        if ch.isdigit():
            num += ch
            continue
        if ch.isspace():
            continue
        cnt = int(num) if num else 1
        num = ''
        if ch == 's':
            out.append(('s', cnt))
        elif ch in _FMT_SIZES:
            out.extend([(ch, _FMT_SIZES[ch])] * cnt)
        else:
            raise EngineLimit('struct format char %r' % ch)
    return end, out


class SxPacker:
    """struct.Struct with the documented semantics of explicit-byte-order integer formats"""
    def __init__(self, fmt):
        if isinstance(fmt, bytes):
            fmt = fmt.decode()
        self.format = fmt
        self._s = _struct.Struct(fmt)
        self.size = self._s.size
        self._parsed = None

    def unpack(self, b):
        if type(b) is not SymBytes:
            return self._s.unpack(b)
        if self._parsed is None:
            self._parsed = _parse_fmt(self.format)
        end, fields = self._parsed
        items = b.items
        if len(items) != self.size:
            raise _struct.error('unpack requires a buffer of %d bytes' % self.size)
        out = []
        p = 0
        for ch, sz in fields:
            chunk = items[p:p + sz]
            p += sz
            if ch == 'x':
                continue
            if ch == 's':
                out.append(mkbytes(chunk))
                continue
            if ch == 'c':
                out.append(mkbytes(chunk))
                continue
            if end == '<':
                chunk = chunk[::-1]
            v = 0
            for it in chunk:
                v = (v << 8) | it
            if ch in 'bhilq':
                bits = 8 * sz
                v = (v ^ (1 << (bits - 1))) - (1 << (bits - 1))
            out.append(v)
        return tuple(out)

    def unpack_from(self, b, offset=0):
        if type(b) is not SymBytes:
            return self._s.unpack_from(b, offset)
        return self.unpack(b[offset:offset + self.size])

    def pack(self, *a):
        if not any(is_sym(x) for x in a):
            return self._s.pack(*a)
        if self._parsed is None:
            self._parsed = _parse_fmt(self.format)
        end, fields = self._parsed
        out = []
        vals = list(a)
        for ch, sz in fields:
            if ch == 'x':
                out.extend([0] * sz)
                continue
            v = vals.pop(0)
            if ch in 'sc':
                v = list(v)
                out.extend(v[:sz] + [0] * (sz - len(v)))
                continue
            bits = 8 * sz
            if ch in 'bhilq':
                lo, hi = -(1 << (bits - 1)), (1 << (bits - 1)) - 1
            else:
                lo, hi = 0, (1 << bits) - 1
            if lor(v < lo, v > hi):
                raise _struct.error('argument out of range')
            cells = [(v >> (8 * i)) & 0xff for i in range(sz)]
            if end == '>':
                cells = cells[::-1]
            out.extend(cells)
        return mkbytes(out)


# ----------------------------------------------------------------------------
# model evaluation of arbitrary (nested) values
# ----------------------------------------------------------------------------
def eval_under(model, x):
    t = type(x)
    if t is SymInt:
        return model.eval(x.e, model_completion=True).as_signed_long()
    if t is SymBool:
        return z3.is_true(model.eval(x.e, model_completion=True))
    if t is SymBytes:
        return bytes(eval_under(model, b) for b in x.items)
    if t is SymStr:
        return ''.join(chr(eval_under(model, c)) for c in x.items)
    if t is SymChoice:
        return eval_under(model, x.objs[model.eval(x.e, model_completion=True).as_long()])
    if t is SymRatio:
        return eval_under(model, x.num) / x.den
    if t is SymText:
        return x.render(lambda v: eval_under(model, v))
    if isinstance(x, list):
        return [eval_under(model, v) for v in x]
    if isinstance(x, tuple):
        return tuple(eval_under(model, v) for v in x)
    if isinstance(x, dict):
        return {eval_under(model, k): eval_under(model, v) for k, v in x.items()}
    return x


_SYMTYPES = (SymInt, SymBool, SymBytes, SymStr, SymChoice, SymRatio, SymText)
