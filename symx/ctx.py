"""symx.ctx - symbolic harness context (z3)."""
import z3
from . import core
from .api import CtxBase, DecoyStop
from .core import SymInt, SymBool, SymBytes, SymStr, SymChoice, SymStream, EngineLimit, PathAbort


class SymCtx(CtxBase):
    symbolic = True

    def __init__(self, cfg, ex):
        CtxBase.__init__(self, cfg)
        self.ex = ex
        self.inputs = {}        # name -> z3 variable (declaration order kept)
        self.violations = []    # (label, inputs-dict)
        self.inconclusive = []  # (label, reason)
        self.discharged = {}    # label -> count
        self.trivial = 0
        self._signed_names = set()

    # ---- allocation limit (C19) -------------------------------------------------------
    def alloc_begin(self, limit):
        core.ALLOC_LIMIT[0] = limit

    def alloc_end(self):
        core.ALLOC_LIMIT[0] = None
        return False

    # ---- decoy runs (api.run_harness) ----------------------------------------------
    def decoy_ctx(self, dcfg):
        sub = SymCtx(dcfg, self.ex)
        sub.prefix = 'decoy.'
        sub.mute = True
        sub.inputs = self.inputs            # its inputs are inputs of the path (replayed with it)
        sub._signed_names = self._signed_names
        return sub

    def decoy_begin(self):
        self.ex.no_alternatives = True      # one path through the decoy: its branches are decided by the current model, not explored

    def decoy_end(self):
        self.ex.no_alternatives = False

    # ---- inputs -----------------------------------------------------------------
    def uint(self, name, bits):
        name = self.prefix + name
        s, v = core.fresh_uint(name, bits)
        self.inputs[name] = v
        return s

    def byte(self, name):
        return self.uint(name, 8)

    def bytes(self, name, n):
        return [self.uint('%s[%d]' % (name, i), 8) for i in range(n)]

    def int_range(self, name, lo, hi):
        if lo == hi:
            return lo
        name = self.prefix + name
        if lo >= 0:
            bits = max(hi.bit_length(), 1)
            v = z3.BitVec(name, bits)
            self.inputs[name] = v
            e = z3.ZeroExt(1, v)
            w = bits + 1
        else:
            bits = core.bits_for(lo, hi)
            v = z3.BitVec(name, bits)
            self.inputs[name] = v
            e = v
            w = bits
        cs = []
        full_lo = 0 if lo >= 0 else -(1 << (bits - 1))
        full_hi = (1 << bits) - 1 if lo >= 0 else (1 << (bits - 1)) - 1
        if lo > full_lo:
            cs.append(e >= z3.BitVecVal(lo, w))
        if hi < full_hi:
            cs.append(e <= z3.BitVecVal(hi, w))
        for c in cs:
            self.ex.assume(c)
        return SymInt(z3.simplify(core.ext(e, core.bits_for(lo, hi))), lo, hi)

    def bool(self, name):
        name = self.prefix + name
        v = z3.BitVec(name, 1)
        self.inputs[name] = v
        return SymBool(v == 1)

    def choice(self, name, objs):
        if len(objs) == 1:
            return objs[0]
        i = self.int_range(name, 0, len(objs) - 1)
        return SymChoice(core.ext(i.e, SymChoice.W) if False else z3.ZeroExt(SymChoice.W - i.e.size(), i.e), list(objs))

    # ---- logic ------------------------------------------------------------------
    def assume(self, cond):
        if self.mute:
            # decoy: never make the path infeasible - stop the decoy instead
            if not core.is_sym(cond):
                if not cond:
                    raise DecoyStop()
                return
            c = core.zb(cond)
            saved = self.ex.model
            r = self.ex.check(c)
            if r != z3.sat:
                self.ex.model = saved
                raise DecoyStop()
            self.ex.add(c)
            return
        self.ex.assume(core.zb(cond) if core.is_sym(cond) else bool(cond))

    def fork(self, cond):
        return bool(cond)

    def truth(self, x):
        if type(x) in (SymBool, SymInt):
            return core.mkbool(core.zb(x))
        return bool(x)

    def ite(self, c, a, b): return core.ite(c, a, b)
    def lnot(self, a): return core.lnot(a)
    def land(self, *cs): return core.land(*cs)
    def lor(self, *cs): return core.lor(*cs)

    def model_inputs(self, model):
        out = {}
        for name, v in self.inputs.items():
            val = model.eval(v, model_completion=True)
            out[name] = val.as_signed_long() if name in self._signed_names else val.as_long()
        return out

    def sint(self, name, bits):
        name = self.prefix + name
        s, v = core.fresh_sint(name, bits)
        self.inputs[name] = v
        self._signed_names.add(name)
        return s

    def check(self, label, cond):
        """obligation: cond must hold for every input on this path"""
        if self.mute:
            return True
        self.nchecks += 1
        ex = self.ex
        if not core.is_sym(cond):
            if cond:
                self.trivial += 1
                self.discharged[label] = self.discharged.get(label, 0) + 1
                return True
            m = ex.get_model()
            if m is None:
                self.inconclusive.append((label, 'no model for a path with a failed concrete check'))
            else:
                self.violations.append((label, self.model_inputs(m)))
            return False
        c = core.zb(cond)
        saved = ex.model
        r = ex.check(z3.Not(c))
        if r == z3.unsat:
            ex.model = saved
            self.discharged[label] = self.discharged.get(label, 0) + 1
            every = getattr(ex, 'dump_every', 0)
            if every:
                ex.dump_counter = getattr(ex, 'dump_counter', 0) + 1
                if ex.dump_counter % every == 0 and len(ex.smt_samples) < ex.dump_cap:
                    s2 = z3.Solver()
                    s2.add(*ex.pc)
                    s2.add(z3.Not(c))
                    ex.smt_samples.append((label, s2.to_smt2()))
            return True
        if r == z3.sat:
            m = ex.last_model()
            ex.model = saved
            self.violations.append((label, self.model_inputs(m)))
            return False
        ex.model = saved
        self.inconclusive.append((label, 'solver: unknown'))
        return False

    # ---- values -------------------------------------------------------------------
    def stream(self, items, pos=0, merge_reads=False):
        return self.track(SymStream(items, pos, merge_reads=merge_reads))

    def mkbytes(self, items): return core.mkbytes(items)

    def concretize(self, x):
        t = type(x)
        if t is SymInt: return x.concretize()
        if t is SymBool: return bool(x)
        if t in (SymBytes, SymStr, SymChoice): return x.concretize()
        return x

    def is_sym(self, x): return core.is_sym(x)

    def select(self, lst, i):
        if type(i) is SymInt:
            return core.sym_list_get(list(lst), i)
        return lst[i]

    def fmt(self, f, *vals):
        return core.sx_mod(f, tuple(vals))

    def alternatives(self, x):
        """[(cond, object)] for a merged lookup result; no forking"""
        if type(x) is SymChoice:
            return [(core.mkbool(c), o) for c, o in x.alts()]
        return [(True, x)]

    def table_get(self, d, k):
        if type(k) is SymInt:
            return core.sym_dict_get(d, k)
        return d[k]

    def use_zlib_model(self, pairs):
        from . import sx_zlib
        sx_zlib.reset()
        sx_zlib.use_model(True)
        for comp, plain in pairs:
            sx_zlib.register(comp, plain)

    def use_crc_model(self, value):
        """binascii.crc32 of the linked file is an uninterpreted value chosen by the solver"""
        from . import sx_binascii
        sx_binascii.set_crc32((lambda data, crc=0: value) if value is not None else None)

    def loose_text(self, flag=True):
        """section / symbol names made of symbolic non-ASCII bytes are approximated (only for harnesses that never observe text)"""
        core.LOOSE_DECODE = bool(flag)
