"""symx.libstate - start every path / replayed item from the library's import-time process state.

The library keeps some state beyond the objects of one opened file (module-level and class-level tables, memoised struct
factories).  Worker processes execute many paths, so without a reset what one path left behind would leak into the next
(non-deterministic exploration, counterexamples that do not replay in a fresh process).  snapshot() records, once all
library modules are imported, every module attribute and class attribute (identity, and a shallow copy of small mutable
containers); restore() puts them back.  "A second file in the same process" is modelled explicitly by decoy runs
(api.run_harness), inside one path, never by leakage between paths.  No z3 here (used by the plain replay too)."""
import importlib
import pkgutil
import sys
import types

_SNAP = []
_SMALL = 256


def preload(pkgname='elftools'):
    pkg = importlib.import_module(pkgname)
    for m in pkgutil.walk_packages(pkg.__path__, pkgname + '.'):
        try:
            importlib.import_module(m.name)
        except Exception:
            pass


def _copy(v):
    t = type(v)
    if t is dict:
        return dict(v)
    if t is list:
        return list(v)
    if t is set:
        return set(v)
    return None


def _owners(pkgname):
    for name, m in list(sys.modules.items()):
        if m is None or not (name == pkgname or name.startswith(pkgname + '.')):
            continue
        yield m
        for v in list(vars(m).values()):
            if isinstance(v, type) and getattr(v, '__module__', None) == name:
                yield v


def snapshot(pkgname='elftools'):
    del _SNAP[:]
    for owner in _owners(pkgname):
        for k, v in list(vars(owner).items()):
            if k.startswith('__') and k.endswith('__'):
                continue
            if isinstance(v, (types.FunctionType, types.ModuleType, staticmethod, classmethod, property, type)):
                _SNAP.append((owner, k, v, None, -1))
                continue
            c = _copy(v)
            _SNAP.append((owner, k, v, c if c is not None and len(c) <= _SMALL else None, len(c) if c is not None else -1))
    return len(_SNAP)


def restore():
    """-> number of attributes that had to be put back"""
    n = 0
    for owner, k, v, content, ln in _SNAP:
        d = vars(owner)
        if d.get(k, _SNAP) is not v:
            try:
                setattr(owner, k, v)
                n += 1
            except Exception:
                pass
        if ln >= 0:
            if content is not None:
                if v != content:
                    n += 1
                    if type(v) is list:
                        v[:] = content
                    else:
                        v.clear()
                        v.update(content)
            elif len(v) != ln:
                n += 1      # a large table changed its size: cannot be restored from a shallow copy; reported by the caller
    # attributes added since the snapshot (e.g. a memo attached to a class on first use)
    known = {}
    for owner, k, v, content, ln in _SNAP:
        known.setdefault(id(owner), set()).add(k)
    for owner in {id(o): o for o, _, _, _, _ in _SNAP}.values():
        ks = known[id(owner)]
        for k in [k for k in vars(owner) if k not in ks and not (k.startswith('__') and k.endswith('__'))]:
            try:
                delattr(owner, k)
                n += 1
            except Exception:
                pass
    return n
