"""symx.loader - import hook that loads `elftools.*` from $VERIF_REPO with a small
semantics-preserving AST rewrite (see DESIGN.md 2.2): operations that CPython
performs inside C on C-typed receivers are routed through shims that first test
"is any operand a proxy?" and otherwise perform the original operation.
"""
import ast
import importlib.abc
import importlib.util
import os
import sys

from . import core

REPO = os.environ.get('VERIF_REPO', '/repo')
SEEN = set()          # 'module:qualname' of every instrumented function that was entered

METHS = {'get', 'join', 'from_bytes', 'startswith', 'endswith', 'index', 'format', 'pop'}
STUB_MODULES = {'struct': 'sx_struct', 'zlib': 'sx_zlib', 'binascii': 'sx_binascii'}


class Rewriter(ast.NodeTransformer):
    def __init__(self, modname):
        self.modname = modname
        self.scope = []

    # ---- function entry recording ------------------------------------------------
    def _visit_func(self, node):
        self.scope.append(node.name)
        self.generic_visit(node)
        q = '%s:%s' % (self.modname, '.'.join(self.scope))
        self.scope.pop()
        rec = ast.Expr(ast.Call(ast.Attribute(ast.Name('_sx_seen', ast.Load()), 'add', ast.Load()),
                                [ast.Constant(q)], []))
        body = node.body
        i = 0
        if body and isinstance(body[0], ast.Expr) and isinstance(body[0].value, ast.Constant) and isinstance(body[0].value.value, str):
            i = 1
        node.body = body[:i] + [ast.copy_location(rec, body[0])] + body[i:]
        return node

    visit_FunctionDef = _visit_func
    visit_AsyncFunctionDef = _visit_func

    def visit_ClassDef(self, node):
        self.scope.append(node.name)
        self.generic_visit(node)
        self.scope.pop()
        return node

    # ---- never touch annotations ----------------------------------------------------
    def visit_AnnAssign(self, node):
        if node.value is not None:
            node.value = self.visit(node.value)
        node.target = self.visit(node.target)
        return node

    def visit_arg(self, node):
        return node

    # ---- operations ------------------------------------------------------------------
    def visit_Subscript(self, node):
        self.generic_visit(node)
        if isinstance(node.ctx, ast.Load):
            sl = node.slice
            if isinstance(sl, ast.Slice):
                none = ast.Constant(None)
                sl = ast.Call(ast.Name('_sx_slice', ast.Load()),
                              [sl.lower or none, sl.upper or none, sl.step or none], [])
            elif isinstance(sl, ast.Tuple) and any(isinstance(e, ast.Slice) for e in sl.elts):
                return node
            return ast.copy_location(ast.Call(ast.Name('_sx_getitem', ast.Load()), [node.value, sl], []), node)
        return node

    def visit_Assign(self, node):
        self.generic_visit(node)
        # d[k] = v  ->  _sx_setitem(d, k, v): a symbolic dict key is made concrete (fork by value) before it is stored
        if len(node.targets) == 1 and isinstance(node.targets[0], ast.Subscript) and not isinstance(node.targets[0].slice, (ast.Slice, ast.Tuple)):
            t = node.targets[0]
            return ast.copy_location(ast.Expr(ast.Call(ast.Name('_sx_setitem', ast.Load()), [t.value, t.slice, node.value], [])), node)
        return node

    def visit_BinOp(self, node):
        self.generic_visit(node)
        if isinstance(node.op, ast.Mod):
            return ast.copy_location(ast.Call(ast.Name('_sx_mod', ast.Load()), [node.left, node.right], []), node)
        if isinstance(node.op, ast.Mult):
            return ast.copy_location(ast.Call(ast.Name('_sx_mul', ast.Load()), [node.left, node.right], []), node)
        return node

    def visit_Compare(self, node):
        self.generic_visit(node)
        if len(node.ops) == 1 and isinstance(node.ops[0], (ast.In, ast.NotIn)):
            call = ast.Call(ast.Name('_sx_contains', ast.Load()), [node.comparators[0], node.left], [])
            if isinstance(node.ops[0], ast.NotIn):
                call = ast.Call(ast.Name('_sx_not', ast.Load()), [call], [])
            return ast.copy_location(call, node)
        return node

    def visit_Call(self, node):
        self.generic_visit(node)
        f = node.func
        if isinstance(f, ast.Name) and f.id in core.BUILTIN_SHIMS:
            node.func = ast.copy_location(ast.Name('_sx_b_' + f.id, ast.Load()), f)
            return node
        if isinstance(f, ast.Attribute) and f.attr in METHS and not any(isinstance(a, ast.Starred) for a in node.args) \
                and not any(k.arg is None for k in node.keywords):
            return ast.copy_location(ast.Call(ast.Name('_sx_callm', ast.Load()),
                                              [f.value, ast.Constant(f.attr)] + node.args, node.keywords), node)
        return node

    # ---- environment modules ---------------------------------------------------------
    def visit_Import(self, node):
        out = []
        for a in node.names:
            if a.name in STUB_MODULES:
                out.append(ast.copy_location(ast.ImportFrom('symx', [ast.alias(STUB_MODULES[a.name], a.asname or a.name)], 0), node))
            else:
                out.append(ast.copy_location(ast.Import([a]), node))
        return out

    def visit_ImportFrom(self, node):
        if node.level == 0 and node.module in STUB_MODULES:
            node.module = 'symx.' + STUB_MODULES[node.module]
        return node


def _sx_not(x):
    return core.lnot(x)


def _sx_slice(a, b, c):
    return slice(a, b, c)


def instrument(src, path, modname):
    tree = ast.parse(src, path)
    tree = Rewriter(modname).visit(tree)
    ast.fix_missing_locations(tree)
    return compile(tree, path, 'exec')


def inject(d):
    d['_sx_getitem'] = core.sx_getitem
    d['_sx_mod'] = core.sx_mod
    d['_sx_mul'] = core.sx_mul
    d['_sx_setitem'] = core.sx_setitem
    d['_sx_contains'] = core.sx_contains
    d['_sx_callm'] = core.sx_callm
    d['_sx_not'] = _sx_not
    d['_sx_slice'] = _sx_slice
    d['_sx_seen'] = SEEN
    for k, v in core.BUILTIN_SHIMS.items():
        d['_sx_b_' + k] = v


class Loader(importlib.abc.Loader):
    def __init__(self, path):
        self.path = path

    def create_module(self, spec):
        return None

    def exec_module(self, module):
        with open(self.path, encoding='utf-8') as f:
            src = f.read()
        code = instrument(src, self.path, module.__name__)
        d = module.__dict__
        inject(d)
        before = set(SEEN)
        exec(code, d)
        SEEN.intersection_update(before)     # functions that only ran at import time are not "encoded"


class Finder(importlib.abc.MetaPathFinder):
    def __init__(self, repo):
        self.repo = repo

    def find_spec(self, name, path, target=None):
        if not (name == 'elftools' or name.startswith('elftools.')):
            return None
        p = os.path.join(self.repo, name.replace('.', '/'))
        if os.path.isdir(p):
            init = os.path.join(p, '__init__.py')
            return importlib.util.spec_from_file_location(name, init, loader=Loader(init), submodule_search_locations=[p])
        if os.path.exists(p + '.py'):
            return importlib.util.spec_from_file_location(name, p + '.py', loader=Loader(p + '.py'))
        return None


_installed = False


def install(repo=None):
    global _installed, REPO
    if _installed:
        return
    if repo:
        REPO = repo
    sys.dont_write_bytecode = True
    sys.meta_path.insert(0, Finder(REPO))
    _installed = True
