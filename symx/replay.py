"""symx.replay - run harness functions concretely on the plain (un-instrumented) library.
Used (a) to replay solver counterexamples before they are reported and (b) to validate
path witnesses of the engine against the real code.  Must not import z3.

  python -m symx.replay --batch FILE   (FILE: {"property": id, "items": [{harness,cfg,inputs}...]})
  -> JSON list on stdout: [{outcome, failures, obs, exc, missing}]
"""
import importlib
import json
import os
import sys
import traceback


def setup_plain():
    repo = os.environ.get('VERIF_REPO', '/repo')
    sys.dont_write_bytecode = True
    if repo not in sys.path:
        sys.path.insert(0, repo)
    here = os.path.dirname(os.path.dirname(os.path.abspath(__file__)))
    if here not in sys.path:
        sys.path.insert(0, here)


def load_harnesses(pid):
    mod = importlib.import_module('harness.' + pid.lower())
    return {h.name: h for h in mod.HARNESSES}, mod


def run_one(hs, item):
    from symx.concrete import ConCtx, AssumeFailed
    from symx.api import norm, exc_label, run_harness
    h = hs[item['harness']]
    ctx = ConCtx(item['cfg'], item['inputs'])
    res = {'outcome': None, 'failures': [], 'obs': [], 'exc': None, 'missing': []}
    import signal

    class _Timeout(BaseException):
        pass

    def _alarm(signum, frame):
        raise _Timeout()
    old_handler = signal.signal(signal.SIGALRM, _alarm)
    signal.alarm(int(os.environ.get('SYMX_REPLAY_ITEM_S', '60')))
    try:
        run_harness(h, ctx)
        res['outcome'] = ctx._outcome or 'return'
    except _Timeout:
        # the plain library did not finish on this input: a failure of the run, never a pass
        res['outcome'] = 'timeout'
        ctx.failures.append('replay/does-not-terminate-within-%ss' % os.environ.get('SYMX_REPLAY_ITEM_S', '60'))
    except AssumeFailed:
        res['outcome'] = 'assume-failed'
    except Exception as ex:
        res['outcome'] = exc_label(ex)
        res['exc'] = traceback.format_exc().splitlines()[-8:]
        ctx.failures.append(res['outcome'])
    signal.alarm(0)
    signal.signal(signal.SIGALRM, old_handler)
    res['failures'] = ctx.failures
    res['obs'] = [[n, norm(v)] for n, v in ctx.obs]
    res['missing'] = ctx.missing
    return res


def main(argv):
    setup_plain()
    if argv and argv[0] == '--batch':
        with open(argv[1]) as f:
            job = json.load(f)
        hs, _ = load_harnesses(job['property'])
        from symx import libstate
        libstate.preload()
        libstate.snapshot()
        out = []
        for it in job['items']:
            libstate.restore()               # every item starts from the library's import-time process state
            out.append(run_one(hs, it))
        json.dump(out, sys.stdout)
        return 0
    raise SystemExit('usage: python -m symx.replay --batch FILE')


if __name__ == '__main__':
    sys.exit(main(sys.argv[1:]))
