"""symx.runner - decide one property: shard harness instances over processes, explore all
paths of the real code symbolically, discharge obligations, replay counterexamples on the
plain library, validate path witnesses, write evidence, apply the known-findings protocol.

exit 0  every registered obligation holds (KNOWN-FINDING lines allowed)
exit 1  at least one replayed violation not listed as known (VIOLATION line)
exit 2  inconclusive / harness error (never reported as success)
"""
import argparse
import fnmatch
import importlib
import json
import multiprocessing as mp
import os
import subprocess
import sys
import time
import traceback
from collections import Counter
from concurrent.futures import ProcessPoolExecutor, FIRST_COMPLETED, wait

VERIF = os.path.dirname(os.path.dirname(os.path.abspath(__file__)))
PLAIN_PY = '/venv/bin/python' if os.path.exists('/venv/bin/python') else sys.executable

TIERS = {
    'quick': dict(conc_cap=64, deadline_s=600, chunk_paths=120, chunk_s=8, wit_per_task=6, max_decisions=4000, solver_timeout_ms=20000),
    'thorough': dict(conc_cap=512, deadline_s=2400, chunk_paths=400, chunk_s=30, wit_per_task=10, max_decisions=20000, solver_timeout_ms=60000, fresh_rlimit=150000000, cross_every=97),
}

# ------------------------------------------------------------------------------
# worker side
# ------------------------------------------------------------------------------
_W = {}


def _worker_setup(pid, repo):
    if _W.get('pid') == pid:
        return
    os.environ['VERIF_REPO'] = repo
    if VERIF not in sys.path:
        sys.path.insert(0, VERIF)
    from symx import loader
    loader.install(repo)
    mod = importlib.import_module('harness.' + pid.lower())
    from symx import libstate
    libstate.preload()
    libstate.snapshot()
    _W['pid'] = pid
    _W['mod'] = mod
    _W['hs'] = {h.name: h for h in mod.HARNESSES}


# optional line coverage of the library under the symbolic runs (SYMX_COVER=1; diagnostic for tools/cover_report.py only)
_COVER = set() if os.environ.get('SYMX_COVER') else None


def _cover_tracer(frame, event, arg):
    fn = frame.f_code.co_filename
    if '/elftools/' not in fn:
        return None
    key = fn[fn.index('/elftools/') + 1:]

    def local(frame, event, arg):
        if event == 'line':
            _COVER.add((key, frame.f_lineno))
        return local
    _COVER.add((key, frame.f_lineno))
    return local


def run_task(task):
    try:
        return _run_task(task)
    except BaseException as e:       # engine crash: report, never swallow
        return {'task': {k: task[k] for k in ('harness', 'cfg')}, 'crash': traceback.format_exc()[-3000:]}


def _run_task(task):
    import z3
    from symx import core, loader
    from symx.ctx import SymCtx
    from symx.api import norm, exc_label, run_harness
    from symx import libstate
    _worker_setup(task['pid'], task['repo'])
    h = _W['hs'][task['harness']]
    cfg = task['cfg']
    tp = task['tier_params']
    core.SOLVER_TIMEOUT_MS = tp['solver_timeout_ms']
    core.FRESH_RLIMIT = tp.get('fresh_rlimit', 30000000)
    ex = core.Explorer()
    ex.conc_cap = task.get('conc_cap') or tp['conc_cap']
    ex.max_decisions = tp['max_decisions']
    ex.path_budget_s = tp.get('path_s', 60)
    ex.dump_every = tp.get('cross_every', 0)
    ex.dump_cap = 2
    ex.smt_samples = []
    ex.dump_counter = task.get('seed', 0) % max(ex.dump_every, 1)
    core.set_explorer(ex)
    ex.worklist = [list(map(tuple_dec, p)) for p in task['prefixes']]
    res = {
        'task': {'harness': h.name, 'cfg': cfg}, 'paths': 0, 'aborted': 0, 'decisions': 0, 'outcomes': Counter(),
        'discharged': Counter(), 'trivial': 0, 'violations': [], 'inconclusive': [], 'witnesses': [], 'reach': Counter(),
        'maxdepth': 0, 'samples': [],
    }
    t0 = time.time()
    nwit = 0
    seen_viol = Counter()
    while ex.worklist and res['paths'] + res['aborted'] < tp['chunk_paths'] and time.time() - t0 < tp['chunk_s']:
        prefix = ex.worklist.pop()
        libstate.restore()                   # every path starts from the library's import-time process state
        core.ALLOC_LIMIT[0] = None
        ex.reset_path(prefix)
        ctx = SymCtx(cfg, ex)
        status = 'done'
        exc_info = None
        try:
            if _COVER is not None:
                sys.settrace(_cover_tracer)
            run_harness(h, ctx)
            outcome = ctx._outcome or 'return'
        except core.PathAbort:
            status = 'abort'
        except core.EngineLimit as e:
            status = 'limit'
            tb = traceback.extract_tb(e.__traceback__)
            where = ' <- '.join('%s:%d' % (os.path.basename(f.filename), f.lineno) for f in tb[-4:])
            res['inconclusive'].append({'label': 'engine-limit', 'reason': '%s [%s]' % (e, where)})
        except RecursionError as e:
            status = 'limit'
            res['inconclusive'].append({'label': 'engine-limit', 'reason': 'RecursionError'})
        except Exception as e:
            status = 'exc'
            outcome = exc_label(e)
            exc_info = traceback.format_exc().splitlines()[-10:]
        if _COVER is not None:
            sys.settrace(None)
        res['decisions'] += ex.pos
        res['maxdepth'] = max(res['maxdepth'], ex.pos)
        if status == 'abort':
            res['aborted'] += 1
            continue
        res['paths'] += 1
        if status == 'limit':
            continue
        res['outcomes'][outcome] += 1
        res['trivial'] += ctx.trivial
        for k, v in ctx.discharged.items():
            res['discharged'][k] += v
        for lab, why in ctx.inconclusive:
            res['inconclusive'].append({'label': lab, 'reason': why})
        for lab, inputs in ctx.violations:
            seen_viol[lab] += 1
            if seen_viol[lab] <= 2:
                res['violations'].append({'label': lab, 'inputs': inputs})
        model = None
        if status == 'exc':
            model = ex.get_model()
            if model is None:
                res['inconclusive'].append({'label': outcome, 'reason': 'no model for exception path'})
            else:
                seen_viol[outcome] += 1
                if seen_viol[outcome] <= 2:
                    res['violations'].append({'label': outcome, 'inputs': ctx.model_inputs(model), 'exc': exc_info})
        # witness of this path for validation against the plain library
        if nwit < tp['wit_per_task'] and status == 'done' and not ctx.violations:
            model = model or ex.get_model()
            if model is not None:
                try:
                    obs = [[n, norm(core.eval_under(model, v))] for n, v in ctx.obs]
                    res['witnesses'].append({'harness': h.name, 'cfg': cfg, 'inputs': ctx.model_inputs(model),
                                             'outcome': outcome, 'obs': obs})
                    nwit += 1
                except Exception as e:
                    res['inconclusive'].append({'label': 'witness', 'reason': 'cannot evaluate observation: %r' % (e,)})
        if len(res['samples']) < 2 and ctx.discharged:
            res['samples'].append({'harness': h.name, 'cfg': cfg, 'outcome': outcome, 'path_decisions': ex.pos,
                                   'obligations_on_path': sorted(ctx.discharged)[:12]})
    res['leftover'] = [list(p) for p in ex.worklist]
    res['smt_samples'] = ex.smt_samples
    res['queries'] = ex.nq
    res['solver_s'] = ex.tq
    res['unknowns'] = ex.unknowns
    res['slow'] = ex.slow[:5]
    res['functions'] = sorted(loader.SEEN)
    if _COVER is not None:
        res['lines'] = sorted(_COVER)
    res['wall'] = time.time() - t0
    return res


FLIP = {'little': {True: False, False: True}, 'elfclass': {32: 64, 64: 32}, 'addr': {4: 8, 8: 4}, 'fmt64': {True: False, False: True}, 'fmt': {32: 64, 64: 32}}


def _twins(insts, j, limit):
    """decoy instances that differ from instance j in exactly one environment parameter, synthesised by flipping it (byte order
    first).  A synthesised instance the harness cannot build does no harm: decoy runs are silent and may fail."""
    cfg = insts[j]
    out = []
    for key in ('little', 'elfclass', 'addr', 'fmt64', 'fmt'):
        if len(out) >= limit:
            break
        if key in cfg and cfg[key] in FLIP[key]:
            out.append(dict(cfg, **{key: FLIP[key][cfg[key]]}))
        elif isinstance(cfg.get('env'), dict) and key in cfg['env'] and cfg['env'][key] in FLIP[key]:
            out.append(dict(cfg, env=dict(cfg['env'], **{key: FLIP[key][cfg['env'][key]]})))
    return out


def tuple_dec(d):
    d = tuple(d)
    if d[0] == 'x':
        return ('x', list(d[1]))
    return d


# ------------------------------------------------------------------------------
# master side
# ------------------------------------------------------------------------------
def load_findings():
    p = os.path.join(VERIF, 'known_findings.json')
    if not os.path.exists(p):
        return []
    with open(p) as f:
        return json.load(f).get('findings', [])


def match_finding(findings, pid, key):
    for f in findings:
        if f.get('property') == pid and f.get('status') == 'known' and fnmatch.fnmatchcase(key, f['key']):
            return f
    return None


def run_plain(pid, items, repo, timeout=1800):
    """run harness items concretely on the plain library in a separate interpreter"""
    if not items:
        return []
    os.makedirs(os.path.join(VERIF, 'out'), exist_ok=True)
    path = os.path.join(VERIF, 'out', 'batch-%s-%d-%d.json' % (pid, os.getpid(), int(time.time() * 1000) % 100000000))
    with open(path, 'w') as f:
        json.dump({'property': pid, 'items': items}, f)
    env = dict(os.environ, VERIF_REPO=repo, PYTHONDONTWRITEBYTECODE='1')
    env.pop('PYTHONPATH', None)
    try:
        p = subprocess.run([PLAIN_PY, '-m', 'symx.replay', '--batch', path], cwd=VERIF, env=env,
                           capture_output=True, text=True, timeout=timeout)
    finally:
        try:
            os.unlink(path)
        except OSError:
            pass
    if p.returncode != 0:
        raise RuntimeError('plain replay failed: ' + p.stderr[-2000:])
    return json.loads(p.stdout)


def decide(pid, tier, jobs, repo, seed, only=None, verbose=False):
    t_start = time.time()
    if VERIF not in sys.path:
        sys.path.insert(0, VERIF)
    mod = importlib.import_module('harness.' + pid.lower())
    tp = dict(TIERS[tier])
    tp.update(getattr(mod, 'TIER_PARAMS', {}).get(tier, {}))
    hs = [h for h in mod.HARNESSES if not only or h.name in only]
    tasks = []
    per_h = {}
    for h in hs:
        insts = h.instances(tier)
        per_h[h.name] = {'instances': len(insts), 'paths': 0, 'aborted': 0, 'decisions': 0, 'queries': 0, 'solver_s': 0.0,
                         'outcomes': Counter(), 'discharged': Counter(), 'trivial': 0, 'violations': [], 'inconclusive': [],
                         'witnesses': [], 'unknowns': 0, 'maxdepth': 0, 'samples': [], 'cpu_s': 0.0, 'crash': [], 'slow': [], 'smt': []}
        allcfg = list(insts)
        # decoy instances: the same instance again, preceded in the same path by a silent run of a neighbouring instance
        # default: a sample of the instances (8 quick / 32 thorough); H(decoy='all') every instance, H(decoy=-1) none
        dflt = 8 if tier == 'quick' else 16
        nd = len(insts) if h.decoy == 'all' else min(int(dflt if not h.decoy else max(h.decoy, 0)), len(insts))
        if nd and len(insts) > 1:
            step = max(len(insts) // nd, 1)
            for j in list(range(0, len(insts), step))[:nd]:
                if not isinstance(insts[j], dict):
                    continue
                decoys = []
                for off in (1,):
                    d = insts[(j + off + seed) % len(insts)]
                    if d is not insts[j]:
                        decoys.append(d)
                # "twins": the instance that differs in exactly one environment parameter (byte order first, then class, address
                # size, offset size, version): state the library keeps per process and keys without that parameter shows up
                decoys += _twins(insts, j, 1 if tier == 'quick' else 2)
                for d in decoys:
                    allcfg.append(dict(insts[j], _decoy=d))
        per_h[h.name]['instances'] = len(allcfg)
        per_h[h.name]['decoy_instances'] = len(allcfg) - len(insts)
        for cfg in allcfg:
            t = {'pid': pid, 'repo': repo, 'harness': h.name, 'cfg': cfg, 'prefixes': [[]], 'tier_params': dict(tp, **h.budget.get(tier, {})), 'seed': seed + len(tasks)}
            tasks.append(t)
    functions = set()
    cover_lines = set()
    deadline = t_start + tp['deadline_s']
    timed_out = False
    pending = {}
    ctxmp = mp.get_context('fork')
    queue = list(reversed(tasks))
    pool = ProcessPoolExecutor(max_workers=jobs, mp_context=ctxmp)
    pool_broke = None
    try:
        while queue or pending:
            while queue and len(pending) < jobs * 2:
                t = queue.pop()
                pending[pool.submit(run_task, t)] = t
            done, _ = wait(list(pending), timeout=1.0, return_when=FIRST_COMPLETED)
            for fut in done:
                t = pending.pop(fut)
                try:
                    r = fut.result()
                except BaseException as e:        # a worker died (killed, out of memory): no verdict from this chunk
                    per_h[t['harness']]['crash'].append('worker lost: %r' % (e,))
                    if type(e).__name__ == 'BrokenProcessPool':
                        raise
                    continue
                st = per_h[t['harness']]
                if 'crash' in r:
                    st['crash'].append(r['crash'])
                    continue
                for k in ('paths', 'aborted', 'decisions', 'queries', 'trivial', 'unknowns'):
                    st[k] += r[k]
                st['solver_s'] += r['solver_s']
                st['cpu_s'] += r['wall']
                st['maxdepth'] = max(st['maxdepth'], r['maxdepth'])
                st['outcomes'].update(r['outcomes'])
                st['discharged'].update(r['discharged'])
                st['slow'] += r['slow']
                for v in r['violations']:
                    v['harness'] = t['harness']
                    v['cfg'] = t['cfg']
                    st['violations'].append(v)
                for i in r['inconclusive']:
                    i['cfg'] = t['cfg']
                    st['inconclusive'].append(i)
                st['witnesses'] += r['witnesses']
                if len(st['smt']) < 24:
                    st['smt'] += r.get('smt_samples', [])
                if len(st['samples']) < 3:
                    st['samples'] += r['samples']
                functions.update(r['functions'])
                if r.get('lines'):
                    cover_lines.update(map(tuple, r['lines']))
                left = r['leftover']
                if left:
                    nsplit = min(len(left), 4 if len(left) < 64 else 8)
                    for i in range(nsplit):
                        part = left[i::nsplit]
                        if part:
                            queue.append(dict(t, prefixes=part))
            if time.time() > deadline and (queue or pending):
                timed_out = True
                for fut in pending:
                    fut.cancel()
                queue = []
                # let running chunks finish (bounded by chunk_s), then stop the workers for good
                wait(list(pending), timeout=tp['chunk_s'] * 2)
                pending = {}
                for proc in list(getattr(pool, '_processes', {}).values()):
                    try:
                        proc.terminate()
                    except Exception:
                        pass
                break
    except BaseException as e:
        if isinstance(e, KeyboardInterrupt):
            raise
        pool_broke = repr(e)
    finally:
        try:
            pool.shutdown(wait=False, cancel_futures=True)
        except Exception:
            pass
    if pool_broke:
        # what was found so far is still reported; the run as a whole is inconclusive, never a pass
        timed_out = True
        for st in per_h.values():
            st['crash'].append('worker pool broke: %s' % pool_broke)
            break
    explore_s = time.time() - t_start

    # ---- witness validation against the plain library -----------------------------
    findings = load_findings()
    harness_errors = []
    validated = 0
    wit_items = []
    for hname, st in per_h.items():
        wit_items += st['witnesses']
    chunks = [wit_items[i::jobs] for i in range(jobs)]
    chunks = [c for c in chunks if c]
    if chunks:
        with ProcessPoolExecutor(max_workers=len(chunks), mp_context=ctxmp) as pool:
            futs = [pool.submit(run_plain, pid, [{k: w[k] for k in ('harness', 'cfg', 'inputs')} for w in c], repo) for c in chunks]
            for c, fut in zip(chunks, futs):
                try:
                    outs = fut.result()
                except Exception as e:
                    harness_errors.append('witness batch failed: %s' % e)
                    continue
                for w, o in zip(c, outs):
                    if o['outcome'] != w['outcome'] or o['failures'] or json.dumps(o['obs'], sort_keys=True) != json.dumps(w['obs'], sort_keys=True):
                        diff = [(a, b) for a, b in zip(w['obs'], o['obs']) if json.dumps(a, sort_keys=True) != json.dumps(b, sort_keys=True)][:3]
                        harness_errors.append('witness mismatch in %s cfg=%s: symbolic outcome=%s / plain outcome=%s failures=%s; first differing observations (symbolic, plain)=%s nobs=%d/%d inputs=%s %s'
                                              % (w['harness'], w['cfg'], w['outcome'], o['outcome'], o['failures'],
                                                 json.dumps(diff)[:600], len(w['obs']), len(o['obs']), json.dumps(w['inputs'])[:400], '\n'.join(o.get('exc') or [])))
                    else:
                        validated += 1

    # ---- replay violations -----------------------------------------------------------
    os.makedirs(os.path.join(VERIF, 'out', 'replays'), exist_ok=True)
    reported, known, unreproduced = [], [], []
    for hname, st in per_h.items():
        bykey = {}
        for v in st['violations']:
            bykey.setdefault(v['label'], []).append(v)
        for label, vs in sorted(bykey.items()):
            key = '%s:%s' % (hname, label)
            cands = vs[:4]
            outs = run_plain(pid, [{k: v[k] for k in ('harness', 'cfg', 'inputs')} for v in cands], repo)
            hit = None
            for v, o in zip(cands, outs):
                if label in o['failures']:
                    hit = (v, o)
                    break
            if hit is None:
                # the same input fails on the plain library, but at another obligation (e.g. it raises or does not terminate
                # before reaching the one the solver refuted): still a confirmed counterexample of the property
                for v, o in zip(cands, outs):
                    if o['failures']:
                        hit = (v, o)
                        break
            if hit is None:
                unreproduced.append({'key': key, 'cfg': cands[0]['cfg'], 'inputs': cands[0]['inputs'], 'plain': outs[0]})
                continue
            v, o = hit
            fnd = match_finding(findings, pid, key)
            safe = ''.join(ch if ch.isalnum() or ch in '._-' else '_' for ch in key)[:120]
            rp = os.path.join(VERIF, 'out', 'replays', '%s-%s.json' % (pid, safe))
            with open(rp, 'w') as f:
                json.dump({'property': pid, 'key': key, 'items': [{'harness': hname, 'cfg': v['cfg'], 'inputs': v['inputs']}],
                           'label': label, 'plain_result': o}, f, indent=1)
            if fnd:
                known.append((key, fnd, rp))
            else:
                reported.append((key, rp, v, o))

    # ---- cross-solver re-check of a sample of discharged obligations (thorough tier) ----------------
    cross = {'sampled': 0, 'z3_4.8.12': Counter(), 'cvc5': Counter()}
    if tp.get('cross_every'):
        smt = []
        for hname, st in per_h.items():
            smt += [(hname, lab, txt) for lab, txt in st['smt'][:24]]
        cross['sampled'] = len(smt)
        d = os.path.join(VERIF, 'out', 'smt2-%s-%d' % (pid, os.getpid()))
        os.makedirs(d, exist_ok=True)
        jobs_ = []
        for i, (hname, lab, txt) in enumerate(smt):
            fn = os.path.join(d, '%d.smt2' % i)
            with open(fn, 'w') as f:
                f.write(txt)
            for name, cmd in (('z3_4.8.12', ['/usr/bin/z3', '-T:60', fn]), ('cvc5', ['cvc5', '--tlimit=60000', fn])):
                jobs_.append((name, hname, lab, cmd))

        def run_ext(j):
            name, hname, lab, cmd = j
            try:
                out = subprocess.run(cmd, capture_output=True, text=True, timeout=90).stdout.strip().splitlines()
                ans = [l for l in out if l in ('sat', 'unsat', 'unknown')]
                return name, hname, lab, (ans[0] if ans and not any('(error' in l for l in out) else 'error')
            except Exception:
                return name, hname, lab, 'error'
        from concurrent.futures import ThreadPoolExecutor
        with ThreadPoolExecutor(max_workers=jobs) as tpool:
            for name, hname, lab, ans in tpool.map(run_ext, jobs_):
                cross[name][ans] += 1
                if ans == 'sat':
                    harness_errors.append('cross-solver disagreement: %s says sat for obligation %s:%s that z3 %s discharged' % (name, hname, lab, _z3_version()))
        import shutil
        shutil.rmtree(d, ignore_errors=True)

    # ---- vacuity guards ----------------------------------------------------------------
    vacuity = []
    for h in hs:
        st = per_h[h.name]
        for exp in h.expect:
            if not any(fnmatch.fnmatchcase(o, exp) for o in st['outcomes']):
                vacuity.append('%s: expected outcome class %r never reached (outcomes: %s)' % (h.name, exp, dict(st['outcomes'])))
        if not st['discharged'] and not st['violations']:
            vacuity.append('%s: no obligation was reached on any path' % h.name)

    inconclusive = []
    for hname, st in per_h.items():
        for c in st['crash']:
            inconclusive.append('%s: engine crash: %s' % (hname, c[-600:]))
        seen = Counter()
        for i in st['inconclusive']:
            k = (i['label'], i['reason'][:160])
            seen[k] += 1
            if seen[k] == 1:
                inconclusive.append('%s: %s: %s (cfg %s)' % (hname, i['label'], i['reason'], i['cfg']))
    if timed_out:
        inconclusive.append('deadline of %ds reached with unexplored paths' % tp['deadline_s'])
    for u in unreproduced:
        harness_errors.append('counterexample for %s does not reproduce on the plain library: cfg=%s inputs=%s plain=%s'
                              % (u['key'], u['cfg'], json.dumps(u['inputs'])[:600], json.dumps(u['plain'])[:600]))
    harness_errors += vacuity

    # ---- report -------------------------------------------------------------------------
    wall = time.time() - t_start
    tot = Counter()
    for hname, st in per_h.items():
        for k in ('paths', 'decisions', 'queries', 'aborted', 'trivial'):
            tot[k] += st[k]
        tot['obligations'] += sum(st['discharged'].values())
        print('[%s] %-28s inst=%-4d paths=%-6d queries=%-7d solver=%.1fs cpu=%.1fs obligations=%d outcomes=%s%s' % (
            pid, hname, st['instances'], st['paths'], st['queries'], st['solver_s'], st['cpu_s'], sum(st['discharged'].values()),
            dict(st['outcomes'].most_common(6)), (' VIOLATIONS=%d' % len(st['violations'])) if st['violations'] else ''))
    for key, fnd, rp in known:
        print('KNOWN-FINDING: property=%s %s [%s] replay=%s' % (pid, fnd.get('what', ''), key, rp))
    for key, rp, v, o in reported:
        print('VIOLATION property=%s replay=%s' % (pid, rp))
        print('  obligation %s cfg=%s' % (key, json.dumps(v['cfg'])))
        print('  inputs %s' % json.dumps(v['inputs'])[:1500])
        if o.get('exc'):
            print('  ' + '\n  '.join(o['exc'][-4:]))
    for m in harness_errors:
        print('HARNESS-ERROR: ' + m[:3000])
    for m in inconclusive[:40]:
        print('INCONCLUSIVE: ' + m[:1500])

    samples = []
    for hname, st in per_h.items():
        samples += st['samples'][:2]
    functions = sorted(f for f in functions)
    if cover_lines:
        os.makedirs(os.path.join(VERIF, 'out'), exist_ok=True)
        with open(os.path.join(VERIF, 'out', 'cover_%s.json' % pid), 'w') as f:
            json.dump(sorted(cover_lines), f)
    evidence = {
        'property_id': pid, 'tier': tier, 'seed': seed, 'level': 'model_checking',
        'coverage': {
            'states': max(tot['paths'], 0), 'transitions': tot['decisions'],
            'traces_validated_against_impl': validated,
            'samples': samples or [{'note': 'no obligations discharged'}],
            'exhaustive': not (inconclusive or harness_errors),
            'explanation': 'states = feasible paths of the real code explored symbolically (each path stands for all inputs satisfying its path '
                           'condition); transitions = branch/value decisions; obligations = solver queries path-condition AND NOT postcondition, all unsat',
            'obligations_discharged': tot['obligations'], 'obligations_trivially_true': tot['trivial'],
            'solver_queries': tot['queries'], 'solver_s': round(sum(st['solver_s'] for st in per_h.values()), 2),
            'infeasible_or_assumed_away_paths': tot['aborted'],
            'functions_encoded': functions,
            'harnesses': {hname: {'instances': st['instances'], 'paths': st['paths'], 'queries': st['queries'], 'solver_s': round(st['solver_s'], 2),
                                  'obligations': dict(sorted(st['discharged'].items())[:60]), 'n_obligation_labels': len(st['discharged']),
                                  'outcomes': dict(st['outcomes']), 'max_path_decisions': st['maxdepth'],
                                  'bounds': next(h for h in hs if h.name == hname).bounds,
                                  'desc': next(h for h in hs if h.name == hname).desc,
                                  'unknown_results': st['unknowns'], 'slow_queries_s': sorted(st['slow'])[-3:]}
                          for hname, st in per_h.items()},
            'reachability': {hname: dict(st['outcomes']) for hname, st in per_h.items()},
            'inconclusive': inconclusive[:40], 'harness_errors': [m[:500] for m in harness_errors][:20],
            'cross_solver': {'sampled_obligations': cross['sampled'], 'z3_4.8.12': dict(cross['z3_4.8.12']), 'cvc5_1.0': dict(cross['cvc5'])},
            'known_findings': [k for k, _, _ in known], 'violations_reported': [k for k, _, _, _ in reported],
            'outside_claim': getattr(mod, 'OUTSIDE', []), 'stubs': getattr(mod, 'STUBS', []),
            'engine': 'symx (AST-instrumented real source on z3 bit-vector proxies), z3 %s' % _z3_version(),
            'repo': repo, 'explore_wall_s': round(explore_s, 1),
        },
        'assumptions': getattr(mod, 'ASSUMPTIONS', []),
        'wall_s': round(wall, 2),
        'violations': len(reported),
    }
    os.makedirs(os.path.join(VERIF, 'evidence'), exist_ok=True)
    with open(os.path.join(VERIF, 'evidence', pid + '.json'), 'w') as f:
        json.dump(evidence, f, indent=1, sort_keys=True)
    print('[%s] tier=%s paths=%d obligations=%d queries=%d witnesses_validated=%d wall=%.1fs' % (
        pid, tier, tot['paths'], tot['obligations'], tot['queries'], validated, wall))
    if reported:
        return 1
    if harness_errors or inconclusive:
        return 2
    return 0


def _z3_version():
    try:
        import z3
        return z3.get_version_string()
    except Exception:
        return '?'


def do_replay(pid, path, repo):
    with open(path) as f:
        job = json.load(f)
    outs = run_plain(pid, job['items'], repo)
    label = job.get('label')
    hit = any(label in o['failures'] for o in outs) if label else any(o['failures'] for o in outs)
    print(json.dumps(outs, indent=1)[:4000])
    if hit:
        print('VIOLATION property=%s replay=%s' % (pid, path))
        return 1
    print('replay: does not reproduce')
    return 0


def main(argv=None):
    ap = argparse.ArgumentParser()
    ap.add_argument('property')
    ap.add_argument('--tier', default=os.environ.get('VERIF_TIER', 'quick'), choices=['quick', 'thorough'])
    ap.add_argument('--replay')
    ap.add_argument('--jobs', type=int, default=int(os.environ.get('VERIF_JOBS', '0')) or min(16, os.cpu_count() or 4))
    ap.add_argument('--only', action='append')
    ap.add_argument('-v', action='store_true')
    a = ap.parse_args(argv)
    repo = os.environ.get('VERIF_REPO', '/repo')
    seed = int(os.environ.get('VERIF_SEED', '0') or 0)
    pid = a.property.upper()
    if a.replay:
        return do_replay(pid, a.replay, repo)
    return decide(pid, a.tier, a.jobs, repo, seed, only=a.only, verbose=a.v)


if __name__ == '__main__':
    try:
        rc = main()
    except SystemExit:
        raise
    except BaseException:
        # a crash of the machinery is not a verdict on the property: reserved exit code 2, never 1
        traceback.print_exc()
        print('HARNESS-ERROR: the checker itself failed (no verdict)')
        rc = 2
    sys.exit(rc)
