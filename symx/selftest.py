"""symx.selftest - validation of the trusted parts of the engine (run by setup.sh):
 1. the pinned unit tests of /repo pass under the instrumenting loader (AST rewrite is
    semantics preserving on every input the project itself tests);
 2. the struct stub agrees with the real struct module on boundary vectors;
 3. SymStream agrees with io.BytesIO on scripted operation sequences incl. failure cases;
 4. SymInt arithmetic agrees with python ints: for many operator applications the solver
    must find NO model in which the symbolic result differs from python's result.
"""
import io
import os
import random
import struct
import sys
import unittest

VERIF = os.path.dirname(os.path.dirname(os.path.abspath(__file__)))


def test_struct_stub():
    from symx import core
    import z3
    rnd = random.Random(1)
    n = 0
    for end in '<>':
        for ch in 'bBhHiIlLqQ':
            fmt = end + ch
            size = struct.calcsize(fmt)
            vecs = [bytes([0] * size), bytes([0xff] * size), bytes([0x80] + [0] * (size - 1)), bytes([0] * (size - 1) + [0x80]),
                    bytes([0x7f] + [0xff] * (size - 1))] + [bytes(rnd.randrange(256) for _ in range(size)) for _ in range(20)]
            for v in vecs:
                ex = core.Explorer()
                core.set_explorer(ex)
                ex.reset_path([])
                cells = [core.fresh_uint('c%d' % i, 8)[0] for i in range(size)]
                got = core.SxPacker(fmt).unpack(core.SymBytes(cells))[0]
                want = struct.unpack(fmt, v)[0]
                for i, b in enumerate(v):
                    ex.add(z3.BitVec('c%d' % i, 8) == b)
                r = got == want
                assert ex.check(z3.Not(core.zb(r))) == z3.unsat, (fmt, v, want)
                # pack direction
                back = core.SxPacker(fmt).pack(got)
                assert ex.check(z3.Not(core.zb(core.SymBytes(list(back)) == v))) == z3.unsat, ('pack', fmt, v)
                n += 1
    for fmt in ('>BH', '<HB', '<II', '>Q4s'):
        size = struct.calcsize(fmt)
        v = bytes(rnd.randrange(256) for _ in range(size))
        ex = core.Explorer(); core.set_explorer(ex); ex.reset_path([])
        cells = [core.fresh_uint('c%d' % i, 8)[0] for i in range(size)]
        got = core.SxPacker(fmt).unpack(core.SymBytes(cells))
        want = struct.unpack(fmt, v)
        for i, b in enumerate(v):
            ex.add(z3.BitVec('c%d' % i, 8) == b)
        m = ex.get_model()
        assert tuple(core.eval_under(m, g) for g in got) == want, (fmt, got, want)
        n += 1
    return n


def test_stream():
    from symx import core
    rnd = random.Random(2)
    n = 0
    for trial in range(200):
        data = bytes(rnd.randrange(256) for _ in range(rnd.randrange(0, 40)))
        a = io.BytesIO(data)
        b = core.SymStream(data)
        for step in range(12):
            op = rnd.choice(['read', 'seek0', 'seek1', 'seek2', 'tell', 'readall', 'write'])
            arg = rnd.choice([0, 1, 2, 5, 39, 40, 41, 100, -1, -5, 1 << 62, (1 << 63) - 1, 1 << 63, -(1 << 63), -(1 << 63) - 1, 1 << 70])
            ra = rb = None
            try:
                if op == 'read': ra = a.read(arg)
                elif op == 'seek0': ra = a.seek(arg)
                elif op == 'seek1': ra = a.seek(arg if abs(arg) < 1000 else 0, 1) if False else a.seek(arg, 1)
                elif op == 'seek2': ra = a.seek(arg, 2)
                elif op == 'tell': ra = a.tell()
                elif op == 'readall': ra = a.read()
                elif op == 'write' and 0 <= a.tell() < 200: ra = a.write(b'xy')
            except Exception as e:
                ra = type(e).__name__
            try:
                if op == 'read': rb = b.read(arg)
                elif op == 'seek0': rb = b.seek(arg)
                elif op == 'seek1': rb = b.seek(arg, 1)
                elif op == 'seek2': rb = b.seek(arg, 2)
                elif op == 'tell': rb = b.tell()
                elif op == 'readall': rb = b.read()
                elif op == 'write' and 0 <= b.tell() < 200: rb = b.write(b'xy')
            except Exception as e:
                rb = type(e).__name__
            assert ra == rb, (trial, step, op, arg, ra, rb, data)
            assert a.tell() == b.tell(), (trial, step, op, arg, a.tell(), b.tell())
            if a.tell() > 10000:
                a.seek(0); b.seek(0)
            n += 1
        assert a.getvalue() == b.getvalue()
    return n


def test_symint():
    from symx import core
    import z3
    rnd = random.Random(3)
    ops = [
        ('+', lambda a, b: a + b), ('-', lambda a, b: a - b), ('*', lambda a, b: a * b), ('&', lambda a, b: a & b),
        ('|', lambda a, b: a | b), ('^', lambda a, b: a ^ b), ('//', lambda a, b: a // b), ('%', lambda a, b: a % b),
        ('<<', lambda a, b: a << (b & 31)), ('>>', lambda a, b: a >> (b & 63)), ('neg', lambda a, b: -a + ~b),
        ('cmp', lambda a, b: (a < b) + 2 * (a <= b) + 4 * (a == b) + 8 * (a != b) + 16 * (a > b) + 32 * (a >= b)),
        ('abs', lambda a, b: abs(a) - abs(b)),
    ]
    n = 0
    boundary = [0, 1, -1, 2, 127, 128, 255, 256, -128, -129, 0x7fffffff, 0x80000000, 0xffffffff, -0x80000000, (1 << 63) - 1, 1 << 63, (1 << 64) - 1, -(1 << 63)]
    for name, f in ops:
        for trial in range(40):
            sa, sb = rnd.choice([(8, False), (16, True), (32, False), (64, True), (64, False)]), rnd.choice([(8, False), (8, True), (32, True), (64, False)])
            ex = core.Explorer(); core.set_explorer(ex); ex.reset_path([])
            a, va = (core.fresh_sint if sa[1] else core.fresh_uint)('a', sa[0])
            b, vb = (core.fresh_sint if sb[1] else core.fresh_uint)('b', sb[0])

            def pick(bits, signed):
                v = rnd.choice(boundary + [rnd.getrandbits(bits)])
                v &= (1 << bits) - 1
                if signed and v >= 1 << (bits - 1):
                    v -= 1 << bits
                return v
            ca, cb = pick(*sa), pick(*sb)
            if name in ('//', '%') and cb == 0:
                cb = 3
            ex.add(va == (ca & ((1 << sa[0]) - 1)))
            ex.add(vb == (cb & ((1 << sb[0]) - 1)))
            want = f(ca, cb)
            got = f(a, b)
            r = got == want
            assert ex.check(z3.Not(core.zb(r))) == z3.unsat, (name, ca, cb, want)
            n += 1
    return n


def run_unit_tests_under_loader(repo):
    from symx import loader
    loader.install(repo)
    import elftools
    assert type(elftools.__spec__.loader).__name__ == 'Loader', 'instrumenting loader not active'
    cwd = os.getcwd()
    os.chdir(repo)
    sys.path.insert(0, repo)
    try:
        suite = unittest.TestLoader().discover('test', pattern='test_*.py', top_level_dir='.')
        r = unittest.TextTestRunner(verbosity=0, stream=open(os.devnull, 'w')).run(suite)
    finally:
        os.chdir(cwd)
    bad = [(str(t), tb.splitlines()[-1]) for t, tb in r.failures + r.errors]
    # the baseline's known always-fail (emptied binary) is tolerated
    bad = [b for b in bad if 'core_notes32_mips' not in b[0] and 'test_core_notes32_mips' not in b[0]]
    return r.testsRun, bad


def main():
    repo = os.environ.get('VERIF_REPO', '/repo')
    if VERIF not in sys.path:
        sys.path.insert(0, VERIF)
    print('struct stub vectors  :', test_struct_stub())
    print('stream ops compared  :', test_stream())
    print('SymInt op identities :', test_symint())
    ran, bad = run_unit_tests_under_loader(repo)
    print('unit tests under the instrumenting loader: ran %d, unexpected failures %d' % (ran, len(bad)))
    for b in bad[:10]:
        print('   ', b)
    if bad or ran < 100:
        return 1
    print('selftest ok')
    return 0


if __name__ == '__main__':
    sys.exit(main())
