"""stand-in for `binascii` inside instrumented code: crc32 of symbolic data is an
uninterpreted function supplied by the harness (set_crc32)."""
import binascii as _b
from .core import SymBytes

_model = [None]


def set_crc32(fn):
    _model[0] = fn


def crc32(data, crc=0):
    if _model[0] is not None:
        return _model[0](data, crc)
    if type(data) is SymBytes:
        from .core import EngineLimit
        raise EngineLimit('crc32 of symbolic bytes without a model')
    return _b.crc32(data, crc)


def __getattr__(name):
    return getattr(_b, name)
