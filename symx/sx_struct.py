"""stand-in for the `struct` module inside instrumented code (see core.SxPacker)"""
import struct as _s
from .core import SxPacker as Struct, SymBytes

error = _s.error
calcsize = _s.calcsize
_cache = {}


def _get(fmt):
    p = _cache.get(fmt)
    if p is None:
        p = _cache[fmt] = Struct(fmt)
    return p


def unpack(fmt, data):
    return _get(fmt).unpack(data)


def unpack_from(fmt, data, offset=0):
    return _get(fmt).unpack_from(data, offset)


def pack(fmt, *a):
    return _get(fmt).pack(*a)
