"""stand-in for `zlib` inside instrumented code: real zlib unless a harness activated the
contract model (symx.zmodel) for symbolic payloads."""
import zlib as _z
from .core import mkbytes
from .zmodel import Model

error = _z.error
MAX_WBITS = _z.MAX_WBITS
MODEL = Model(mkbytes)


def reset():
    MODEL.reset()
    MODEL.active = False


def use_model(flag):
    MODEL.active = bool(flag)


def register(compressed, plain):
    MODEL.register(compressed, plain)


def decompressobj(*a, **kw):
    if MODEL.active:
        return MODEL.decompressobj()
    return _z.decompressobj(*a, **kw)


def decompress(data, *a, **kw):
    if MODEL.active:
        return MODEL.decompressobj().decompress(data)
    return _z.decompress(data, *a, **kw)


compress = _z.compress
compressobj = _z.compressobj
crc32 = _z.crc32
adler32 = _z.adler32
