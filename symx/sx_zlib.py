"""stand-in for `zlib` inside instrumented code.

Concrete bytes go to the real zlib.  Symbolic payloads use the contract model of
DESIGN.md 2.2(4): the harness registers, per compressed byte string identity, the
plain bytes it inflates to (`register(compressed_items, plain)`); anything not
registered is garbage and raises zlib.error."""
import zlib as _z
from .core import SymBytes, mkbytes, EngineLimit

error = _z.error
MAX_WBITS = _z.MAX_WBITS
_registry = []      # list of (compressed SymBytes/bytes object, plain bytes-like)


def reset():
    del _registry[:]


def register(compressed, plain):
    _registry.append((compressed, plain))


def _lookup(data):
    for comp, plain in _registry:
        if comp is data:
            return plain
        if len(comp) == len(data) and all(a is b or (type(a) is int and type(b) is int and a == b) for a, b in zip(comp, data)):
            return plain
    return None


class _Decomp:
    def __init__(self):
        self._pending = None
        self.unused_data = b''
        self.unconsumed_tail = b''
        self.eof = False

    def decompress(self, data, max_length=0):
        if self._pending is None:
            plain = _lookup(data)
            if plain is None:
                if type(data) is SymBytes:
                    raise error('Error -3 while decompressing data: (symbolic garbage)')
                raise EngineLimit('sx_zlib: unregistered concrete payload')
            self._pending = list(plain)
        if max_length and max_length > 0:
            out = self._pending[:max_length]
            self._pending = self._pending[max_length:]
            self.unconsumed_tail = mkbytes([0]) if self._pending else b''
        else:
            out = self._pending
            self._pending = []
            self.unconsumed_tail = b''
        if not self._pending:
            self.eof = True
        return mkbytes(out)

    def flush(self, *a):
        out = self._pending or []
        self._pending = []
        return mkbytes(out)


_real_mode = [True]


def use_model(flag):
    _real_mode[0] = not flag


def decompressobj(*a, **kw):
    if _real_mode[0]:
        return _z.decompressobj(*a, **kw)
    return _Decomp()


def decompress(data, *a, **kw):
    if _real_mode[0]:
        return _z.decompress(data, *a, **kw)
    return _Decomp().decompress(data)


compress = _z.compress
compressobj = _z.compressobj
crc32 = _z.crc32
adler32 = _z.adler32
