"""symx.zmodel - contract model of zlib.decompressobj shared by the symbolic engine and the
concrete replayer (z3-free).  A harness registers (compressed cells, plain cells); inflating
that compressed byte string - in one piece or in chunks - yields the plain bytes, anything else is a corrupt stream."""
import zlib as _z

error = _z.error


class Model:
    def __init__(self, mkbytes):
        self.mkbytes = mkbytes
        self.registry = []
        self.active = False

    def reset(self):
        del self.registry[:]

    def register(self, compressed, plain):
        self.registry.append((list(compressed), list(plain)))

    def lookup(self, data):
        data = list(data)
        for comp, plain in self.registry:
            if len(comp) == len(data) and all(a is b or (type(a) is int and type(b) is int and a == b) for a, b in zip(comp, data)):
                return plain
        return None

    def decompressobj(self, *a, **kw):
        return Decomp(self)


class Decomp:
    """streaming contract of zlib.decompressobj for a registered (compressed, plain) pair:
    * the object sees the concatenation of the input it CONSUMED; that must be a prefix of the registered compressed string
      (anything else is a corrupt stream: zlib.error), bytes after its end go to unused_data;
    * after consuming i of the C compressed bytes it has produced out(i) = i*P // C of the P plain bytes (out(C) = P): a
      linear profile, one of the behaviours a real deflate stream can have;
    * decompress(data, max_length > 0) stops consuming as soon as max_length bytes are available; the input not consumed is
      left in unconsumed_tail and is NOT remembered by the object - the caller has to pass it again (or call flush(), which
      processes unconsumed_tail);
    * eof once everything was consumed and delivered."""
    def __init__(self, model):
        self.m = model
        self.pair = None
        self.fed = 0            # compressed cells consumed so far
        self.outpos = 0         # plain cells delivered so far
        self.unused_data = b''
        self.unconsumed_tail = b''
        self._tail = []
        self.eof = False

    def _same(self, a, b):
        return a is b or (type(a) is int and type(b) is int and a == b)

    def _identify(self, data):
        # the registered stream this input begins: one of exactly this length first (the usual one-piece call), then a longer one
        # (first chunk of several), then a shorter one (stream followed by other bytes)
        def rank(pair):
            d = len(pair[0]) - len(data)
            return (0 if d == 0 else 1 if d > 0 else 2, abs(d))
        for comp, plain in sorted(self.m.registry, key=rank):
            n = min(len(comp), len(data))
            if n and all(self._same(comp[i], data[i]) for i in range(n)):
                return comp, plain
            if not comp and not data:
                return comp, plain
        return None

    def _out(self, i):
        # the last compressed cell stands for the stream trailer (end-of-block code + Adler-32): all plain bytes are available
        # once the cells before it were consumed, and it is itself consumed only after all of them were delivered - which is why
        # real zlib leaves a non-empty unconsumed_tail whenever max_length cut the output short
        comp, plain = self.pair
        C, P = len(comp), len(plain)
        if C <= 1:
            return P if i >= C else 0
        return P if i >= C - 1 else (i * P) // (C - 1)

    def decompress(self, data, max_length=0):
        if max_length < 0:
            raise ValueError('max_length must be non-negative')
        data = list(data)
        if self.pair is None:
            if not data:
                return b''
            self.pair = self._identify(data)
            if self.pair is None:
                raise error('Error -3 while decompressing data: incorrect header check (model: unregistered payload)')
        comp, plain = self.pair
        # a limit of 0, or one that the rest of the stream cannot reach, is no limit (decided symbolically: the declared size of a
        # section may be any value); a smaller one is a concrete number below the plain size
        if max_length == 0 or max_length >= len(plain) - self.outpos:
            k = 0
        else:
            k = int(max_length)
        # how many cells of data are consumed
        avail = len(comp) - self.fed
        usable = min(len(data), avail)
        for i in range(usable):
            if not self._same(comp[self.fed + i], data[i]):
                raise error('Error -3 while decompressing data: invalid stored block lengths (model: not the continuation of the stream)')
        c = usable
        if k:
            lo = 0
            # smallest c with enough output (out is monotone)
            while lo < usable and self._out(self.fed + lo) - self.outpos < k:
                lo += 1
            c = lo
        end = self._out(self.fed + c)
        if k:
            end = min(end, self.outpos + k)
        if end < len(plain) and self.fed + c >= len(comp) and c > 0:
            c -= 1              # output remains: the trailer cell is not consumed yet
        self.fed += c
        out = plain[self.outpos:end]
        self.outpos = end
        rest = data[c:]
        if self.fed >= len(comp):
            # bytes after the end of the compressed stream
            if self.outpos >= len(plain):
                self.eof = True
                self._tail = []
                self.unconsumed_tail = b''
                if rest:
                    self.unused_data = self.m.mkbytes(rest)
                return self.m.mkbytes(out)
        self._tail = rest if (rest or self._out(self.fed) > self.outpos) else []
        # pending output without pending input is signalled like zlib does: a non-empty unconsumed_tail only if input remains
        self.unconsumed_tail = self.m.mkbytes(rest) if rest else b''
        return self.m.mkbytes(out)

    def flush(self, *a):
        if self.pair is None:
            self.eof = True
            return b''
        comp, plain = self.pair
        tail, self._tail = list(self._tail), []
        out = []
        if tail:
            out = list(self.decompress(tail))
        # output still buffered inside the object
        end = self._out(self.fed)
        out = list(out) + plain[self.outpos:end]
        self.outpos = end
        self.unconsumed_tail = b''
        self.eof = self.fed >= len(comp)
        return self.m.mkbytes(out)
