"""symx.zmodel - contract model of zlib.decompressobj shared by the symbolic engine and the
concrete replayer (z3-free).  A harness registers (compressed cells, plain cells); inflating
exactly that compressed byte string yields the plain bytes, anything else is garbage."""
import zlib as _z

error = _z.error


class Model:
    def __init__(self, mkbytes):
        self.mkbytes = mkbytes
        self.registry = []
        self.active = False

    def reset(self):
        del self.registry[:]

    def register(self, compressed, plain):
        self.registry.append((list(compressed), list(plain)))

    def lookup(self, data):
        data = list(data)
        for comp, plain in self.registry:
            if len(comp) == len(data) and all(a is b or (type(a) is int and type(b) is int and a == b) for a, b in zip(comp, data)):
                return plain
        return None

    def decompressobj(self, *a, **kw):
        return Decomp(self)


class Decomp:
    def __init__(self, model):
        self.m = model
        self._pending = None
        self.unused_data = b''
        self.unconsumed_tail = b''
        self.eof = False

    def decompress(self, data, max_length=0):
        if max_length < 0:
            raise ValueError('max_length must be non-negative')
        if self._pending is None:
            plain = self.m.lookup(data)
            if plain is None:
                raise error('Error -3 while decompressing data: incorrect header check (model: unregistered payload)')
            self._pending = list(plain)
        elif len(data) == 0 and not self._pending:
            return b''
        n = len(self._pending)
        if max_length == 0 or max_length >= n:
            out = self._pending
            self._pending = []
        else:
            k = int(max_length)
            out = self._pending[:k]
            self._pending = self._pending[k:]
        # input that has not been turned into output yet stays in unconsumed_tail (opaque marker bytes)
        self.unconsumed_tail = b'\x00' if self._pending else b''
        if not self._pending:
            self.eof = True
        return self.m.mkbytes(out)

    def flush(self, *a):
        out = self._pending or []
        self._pending = []
        self.eof = True
        return self.m.mkbytes(out)
