#!/usr/bin/env python3
"""Cross-validate spec/elf_layout.py (gABI transcription) against the C structs of the vendored glibc elf.h:
compile a small program with the system C compiler that prints sizeof/offsetof of every field. Skipped (exit 0 with a note) if
no compiler is present."""
import os, shutil, subprocess, sys, tempfile
VERIF = os.path.dirname(os.path.dirname(os.path.abspath(__file__)))
sys.path.insert(0, VERIF)
from spec import elf_layout as L

CSTRUCT = {'EHDR': 'Ehdr', 'SHDR': 'Shdr', 'PHDR': 'Phdr', 'SYM': 'Sym', 'REL': 'Rel', 'RELA': 'Rela', 'DYN': 'Dyn', 'CHDR': 'Chdr',
           'VERDEF': 'Verdef', 'VERDAUX': 'Verdaux', 'VERNEED': 'Verneed', 'VERNAUX': 'Vernaux', 'SYMINFO': 'Syminfo'}
CFIELD = {'d_val': 'd_un.d_val'}


def main():
    cc = shutil.which('cc') or shutil.which('gcc') or shutil.which('clang')
    if not cc:
        print('check_layout: no C compiler, skipped')
        return 0
    lines = ['#include <stdio.h>', '#include <stddef.h>', '#include "elf.h"', 'int main(void){']
    want = []
    for cls in (32, 64):
        for name, cname in CSTRUCT.items():
            t = 'Elf%d_%s' % (cls, cname)
            base = 16 if name == 'EHDR' else 0
            lines.append('printf("%%s %%zu\\n", "%s.sizeof", sizeof(%s));' % (t, t))
            want.append(('%s.sizeof' % t, L.sizeof(name, cls) + base))
            for f, (off, size, sg) in L.offsets(name, cls).items():
                cf = CFIELD.get(f, f)
                lines.append('printf("%%s %%zu %%zu\\n", "%s.%s", offsetof(%s, %s), sizeof(((%s*)0)->%s));' % (t, f, t, cf, t, cf))
                want.append(('%s.%s' % (t, f), off + base, size))
    lines.append('return 0;}')
    d = tempfile.mkdtemp(prefix='verif-layout-', dir='/var/tmp')
    try:
        src = os.path.join(d, 'l.c')
        open(src, 'w').write('\n'.join(lines))
        exe = os.path.join(d, 'l')
        subprocess.check_call([cc, '-I', os.path.join(VERIF, 'registry', 'glibc'), '-o', exe, src])
        out = subprocess.check_output([exe]).decode().split('\n')
    finally:
        shutil.rmtree(d, ignore_errors=True)
    got = {}
    for l in out:
        p = l.split()
        if p:
            got[p[0]] = tuple(int(x) for x in p[1:])
    bad = 0
    for w in want:
        if got.get(w[0]) != tuple(w[1:]):
            print('LAYOUT MISMATCH', w, got.get(w[0]))
            bad += 1
    print('check_layout: %d sizes/offsets compared with elf.h, %d mismatches' % (len(want), bad))
    return 1 if bad else 0


if __name__ == '__main__':
    sys.exit(main())
