#!/usr/bin/env python3
"""Diagnostic: which lines of /repo/elftools are reached by no path of any harness (run checks with SYMX_COVER=1 first).
   usage: tools/cover_report.py [file-substring ...]   - prints per-function uncovered executable lines."""
import ast, glob, json, os, sys
REPO = os.environ.get('VERIF_REPO', '/repo')
VERIF = os.path.dirname(os.path.dirname(os.path.abspath(__file__)))
cov = set()
for f in glob.glob(os.path.join(VERIF, 'out', 'cover_*.json')):
    cov.update(map(tuple, json.load(open(f))))


def exec_lines(code, acc):
    for _, _, ln in code.co_lines():
        if ln:
            acc.add(ln)
    for c in code.co_consts:
        if hasattr(c, 'co_lines'):
            exec_lines(c, acc)


tot = totc = 0
rows = []
for root, _, files in os.walk(os.path.join(REPO, 'elftools')):
    for fn in sorted(files):
        if not fn.endswith('.py'):
            continue
        path = os.path.join(root, fn)
        rel = path[len(REPO) + 1:]
        if sys.argv[1:] and not any(a in rel for a in sys.argv[1:]):
            continue
        src = open(path).read()
        lines = set()
        exec_lines(compile(src, path, 'exec'), lines)
        tree = ast.parse(src)
        funcs = []
        for node in ast.walk(tree):
            if isinstance(node, (ast.FunctionDef, ast.AsyncFunctionDef)):
                funcs.append((node.lineno, node.end_lineno, node.name))
                # docstring lines are not executable
        got = {ln for (f, ln) in cov if f == rel}
        # module-level lines (definitions) are executed at import, outside the traced call: ignore lines not inside a function
        infn = {ln for ln in lines if any(a < ln <= b for a, b, _ in funcs)}
        miss = sorted(infn - got)
        tot += len(infn); totc += len(infn & got)
        rows.append((rel, len(infn), len(infn & got)))
        if sys.argv[1:]:
            srcl = src.splitlines()
            for a, b, name in sorted(funcs):
                m = [ln for ln in miss if a < ln <= b and not any(a2 > a and a2 < ln <= b2 for a2, b2, _ in funcs)]
                if m:
                    print('%s:%d %s  uncovered %d' % (rel, a, name, len(m)))
                    for ln in m:
                        print('    %5d  %s' % (ln, srcl[ln - 1].strip()[:110]))
for rel, n, c in rows:
    if n:
        print('%-45s %5d / %5d  %3d%%' % (rel, c, n, 100 * c // n))
print('TOTAL %d / %d  %d%%' % (totc, tot, 100 * totc // max(tot, 1)))
