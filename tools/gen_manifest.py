#!/usr/bin/env python3
"""Regenerate /verif/MANIFEST.json from the table below (kept in one place so that the
manifest is always schema-valid and consistent with the harness modules present)."""
import json
import os

VERIF = os.path.dirname(os.path.dirname(os.path.abspath(__file__)))

CLAIMED = {
    # id: (design_ref, level text, level_note, technique)
}

NA = {
    'C18': 'The oracle is the output of GNU readelf, an external binary, and the code under test is ~3000 lines of text formatting: '
           'neither side has a symbolic encoding (black-box executable; string formatting is outside the proxies), so a solver-based '
           'check would compare nothing. Library semantics that C18 rests on are decided under C02, C05, C06, C08, C14, C15 (DESIGN.md section 5).',
}

PENDING = 'harness for this property is not built yet (work in progress; see DESIGN.md section 4 for the planned encoding)'


def load_claims():
    p = os.path.join(VERIF, 'tools', 'claims.json')
    with open(p) as f:
        return json.load(f)


def main():
    claims = load_claims()
    checks = []
    na = []
    for i in range(1, 21):
        pid = 'C%02d' % i
        c = claims.get(pid)
        if c and os.path.exists(os.path.join(VERIF, 'harness', pid.lower() + '.py')):
            checks.append({
                'property_id': pid,
                'quick_cmd': './check %s --tier quick' % pid,
                'thorough_cmd': './check %s --tier thorough' % pid,
                'evidence_file': '/verif/evidence/%s.json' % pid,
                'replay_cmd_template': './check %s --replay {path}' % pid,
                'engine': 'symx',
                'level_claimed': {'category': 'model_checking', 'text': c['text'], 'design_ref': c['design_ref']},
                'level_note': c['note'],
                'technique': c['technique'],
            })
        else:
            na.append({'property_id': pid, 'reason': NA.get(pid, PENDING)})
    m = {
        'version': 1,
        'setup_cmd': './setup.sh',
        'hooks': {
            'guard': 'PYELFTOOLS_VERIF',
            'enable': 'none needed: the checks instrument /repo source at import time (symx.loader); no hook code lives in /repo',
            'baseline_off_cmd': 'cd /repo && /venv/bin/python -m pytest -ra -q -p no:cacheprovider --timeout=900 --continue-on-collection-errors',
            'source_commits': [],
            'add_only': True,
        },
        'engines': [{
            'name': 'symx', 'path': '/verif/symx',
            'serves_properties': [c['property_id'] for c in checks],
            'kind_free_text': 'bounded symbolic execution of the real pyelftools source: AST-instrumenting import hook + proxy values over z3 '
                              'bit-vectors with interval-sized widths, re-execution DFS over typed decisions, obligations discharged by z3, '
                              'counterexamples and per-path witnesses replayed on the plain library under /venv/bin/python',
        }],
        'checks': checks,
        'not_applicable': na,
        'notes': 'All checks: exit 0 = every registered obligation unsat within the stated bounds; exit 1 = replayed counterexample (VIOLATION line); '
                 'exit 2 = inconclusive or harness error (never success). Evidence level model_checking = bounded symbolic model checking; '
                 'bounds, stubs and what lies outside the claim are in each evidence file and DESIGN.md section 4.',
    }
    with open(os.path.join(VERIF, 'MANIFEST.json'), 'w') as f:
        json.dump(m, f, indent=1)
    print('checks:', [c['property_id'] for c in checks])
    print('not_applicable:', [n['property_id'] for n in na])


if __name__ == '__main__':
    main()
