#!/usr/bin/env python3-vt
"""paths per instance of one harness (each instance capped): tools/profile.py C19 h19_1_ctor [cap] [tier]"""
import sys, os, json, time
sys.path.insert(0, os.path.dirname(os.path.dirname(os.path.abspath(__file__))))
from concurrent.futures import ProcessPoolExecutor
import multiprocessing as mp
from symx import runner
import importlib
pid, hname = sys.argv[1], sys.argv[2]
cap = int(sys.argv[3]) if len(sys.argv) > 3 else 1500
tier = sys.argv[4] if len(sys.argv) > 4 else 'quick'
mod = importlib.import_module('harness.' + pid.lower())
h = {x.name: x for x in mod.HARNESSES}[hname]
tp = dict(runner.TIERS[tier]); tp.update(getattr(mod, 'TIER_PARAMS', {}).get(tier, {})); tp.update(h.budget.get(tier, {}))
tp['chunk_paths'] = cap; tp['chunk_s'] = 120; tp['wit_per_task'] = 0
tasks = [{'pid': pid, 'repo': '/repo', 'harness': hname, 'cfg': c, 'prefixes': [[]], 'tier_params': tp} for c in h.instances(tier)]
with ProcessPoolExecutor(16, mp_context=mp.get_context('fork')) as pool:
    res = list(pool.map(runner.run_task, tasks))
rows = []
for t, r in zip(tasks, res):
    if 'crash' in r: rows.append((0, 0, 0, 'CRASH ' + r['crash'][-200:], t['cfg'])); continue
    rows.append((r['paths'], len(r['leftover']), round(r['wall'], 1), dict(r['outcomes']), t['cfg']))
rows.sort(key=lambda x: -x[0] - 1000 * x[1])
for r in rows[:25]:
    print(r[0], 'left', r[1], 's', r[2], json.dumps(r[3])[:80], json.dumps(r[4])[:160])
print('total paths', sum(r[0] for r in rows), 'instances', len(rows))
