#!/usr/bin/env python3-vt
"""debug helper: explore one harness instance in-process and print per-path outcomes
usage: tools/run1.py C20 h20_4_bytecode '<json cfg or index>' [maxpaths]"""
import sys, json, time, os
sys.path.insert(0, os.path.dirname(os.path.dirname(os.path.abspath(__file__))))
from collections import Counter
from symx import runner
pid, hname = sys.argv[1], sys.argv[2]
import importlib
mod = importlib.import_module('harness.' + pid.lower())
h = {x.name: x for x in mod.HARNESSES}[hname]
arg = sys.argv[3]
tier = os.environ.get('VERIF_TIER', 'quick')
cfg = h.instances(tier)[int(arg)] if arg.isdigit() else json.loads(arg)
maxp = int(sys.argv[4]) if len(sys.argv) > 4 else 100000
tp = dict(runner.TIERS[tier]); tp.update(getattr(mod, 'TIER_PARAMS', {}).get(tier, {})); tp.update(h.budget.get(tier, {}))
tp['chunk_paths'] = maxp; tp['chunk_s'] = 3600; tp['wit_per_task'] = 0
t = time.time()
r = runner.run_task({'pid': pid, 'repo': os.environ.get('VERIF_REPO', '/repo'), 'harness': hname, 'cfg': cfg, 'prefixes': [[]], 'tier_params': tp})
if 'crash' in r: print(r['crash']); sys.exit(1)
print('cfg', json.dumps(cfg)[:300])
print('paths', r['paths'], 'aborted', r['aborted'], 'queries', r['queries'], 'solver_s %.1f' % r['solver_s'], 'wall %.1f' % (time.time() - t), 'leftover', len(r['leftover']), 'maxdepth', r['maxdepth'])
print('outcomes', dict(r['outcomes']))
print('discharged', dict(list(r['discharged'].items())[:30]))
for v in r['violations'][:5]: print('VIOL', v['label'], json.dumps(v['inputs'])[:400], '\n'.join(v.get('exc') or []))
for i in r['inconclusive'][:5]: print('INCONCL', i)
